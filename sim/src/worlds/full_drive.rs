//! Drives one run of the full world.

use std::cell::{Cell, RefCell};
use std::collections::BTreeMap;
use std::rc::Rc;

use rs_matter::verif::{Event, Snapshot};

use crate::kernel::{self, Exec, ExecStats, SchedCfg, StopReason, MS, SEC};
use crate::kv::{KvFault, KvRec, SimKv};
use crate::net::{Fate, Net, NetStats, Policy, TapEvent, TapSend};
use crate::tape;
use crate::worlds::full::*;

#[derive(Clone, Debug, Default)]
pub struct UniformNet {
    pub latency_us: u64,
    pub jitter_us: u64,
    pub drop_permille: u32,
    pub dup_permille: u32,
    pub hold_permille: u32,
    pub hold_max_ms: u64,
    /// On-path mutation (single bit flip, truncation, extension) of unsecured (handshake) datagrams
    pub mutate_unsecured_permille: u32,
    /// ... and of secured datagrams
    pub mutate_secured_permille: u32,
    /// Replace a datagram by a copy of an earlier one of the same sender (replay / substitution)
    pub replay_permille: u32,
    /// Flip one bit in the confirmation value of every PASE Pake3 message sent by this node
    pub corrupt_pake3_from: Option<usize>,
}

thread_local! {
    /// (from, to, step) in microseconds: probe the devices this often inside the interval
    static FINE_PROBE: Cell<Option<(u64, u64, u64)>> = const { Cell::new(None) };
}

/// Damage done to one stored blob of device 0 while it is down (bit rot, torn or lost write of
/// an optional cache)
#[derive(Clone, Debug, PartialEq, Eq)]
pub enum BlobDamage {
    /// Zero-length blob
    Empty,
    /// Only the first n bytes survive
    Truncate(usize),
    /// One bit flipped at (byte index mod length, bit)
    FlipBit(usize, u8),
    /// One byte overwritten at (index mod length)
    SetByte(usize, u8),
    /// Replaced by n pseudo-random bytes
    Garbage(usize, u64),
    /// n pseudo-random bytes appended
    Extend(usize, u64),
}

thread_local! {
    static BLOB_DAMAGE: RefCell<Option<(u16, BlobDamage)>> = const { RefCell::new(None) };
}

/// Ask the next `drive_full_with` on this thread to damage the blob stored under `key` at every
/// restart of device 0 (if it exists)
pub fn set_blob_damage(v: Option<(u16, BlobDamage)>) {
    BLOB_DAMAGE.with(|c| *c.borrow_mut() = v);
}

/// Ask the next `drive_full_with` on this thread to call its step hook every `step` microseconds
/// between `from` and `to` (it is every 100 ms otherwise)
pub fn set_fine_probe(v: Option<(u64, u64, u64)>) {
    FINE_PROBE.with(|c| c.set(v));
}

pub struct UniformAdversary {
    pub cfg: UniformNet,
    pub fired: Rc<RefCell<BTreeMap<&'static str, u64>>>,
    /// When set, faults are switched off (settle phase)
    pub calm: Rc<Cell<bool>>,
    /// Earlier datagrams per sender (for replays)
    pub seen: Vec<(usize, Vec<u8>)>,
    /// (destination node, message counter) of the Pake2 messages the device sent
    pub pake2_seen: Vec<(usize, u32)>,
}

/// Counter names for "the device sent a (distinct) PASE Pake2 message to node n"
pub const PAKE2_TO: [&str; 8] = [
    "pake2_distinct_to_n0",
    "pake2_distinct_to_n1",
    "pake2_distinct_to_n2",
    "pake2_distinct_to_n3",
    "pake2_distinct_to_n4",
    "pake2_distinct_to_n5",
    "pake2_distinct_to_n6",
    "pake2_distinct_to_n7",
];

impl UniformAdversary {
    /// Observation only (no choice drawn): a Pake2 sent by the device means the handshake got as
    /// far as the proof; retransmissions of one Pake2 count once.
    fn note_pake2(&mut self, rec: &TapSend) {
        let secured = rec.bytes.len() >= 4 && (rec.bytes[1] != 0 || rec.bytes[2] != 0 || rec.bytes[3] & 1 != 0);
        if secured || rec.src != 0 {
            return;
        }
        let Some(plain) = crate::wire::decode_plain(&rec.bytes) else {
            return;
        };
        let Some(proto) = crate::wire::decode_proto(&rec.bytes, &plain, None, 0) else {
            return;
        };
        if proto.proto_id != 0 || proto.opcode != 0x23 {
            return;
        }
        let Some(to) = crate::net::addr_node(&rec.dst) else {
            return;
        };
        if to >= PAKE2_TO.len() {
            return;
        }
        let key = (to, plain.ctr);
        if !self.pake2_seen.contains(&key) {
            self.pake2_seen.push(key);
            *self.fired.borrow_mut().entry(PAKE2_TO[to]).or_default() += 1;
        }
    }
}

impl Policy for UniformAdversary {
    fn decide(&mut self, _rec: &TapSend) -> Vec<Fate> {
        self.note_pake2(_rec);
        let cfg = &self.cfg;
        let lat = cfg.latency_us
            + if cfg.jitter_us > 0 {
                tape::range(0, cfg.jitter_us / 100) * 100
            } else {
                0
            };
        if self.calm.get() {
            return vec![Fate::deliver(lat)];
        }
        let secured = _rec.bytes.len() >= 4 && (_rec.bytes[1] != 0 || _rec.bytes[2] != 0 || _rec.bytes[3] & 1 != 0);
        if !secured && cfg.corrupt_pake3_from == Some(_rec.src) {
            if let Some(plain) = crate::wire::decode_plain(&_rec.bytes) {
                if let Some(proto) = crate::wire::decode_proto(&_rec.bytes, &plain, None, 0) {
                    // Secure channel, PASE Pake3: {1: cA (32 bytes)}
                    if proto.proto_id == 0 && proto.opcode == 0x24 && proto.payload.len() >= 34 {
                        let mut b = _rec.bytes.clone();
                        let i = b.len() - 2 - tape::choose(32) as usize;
                        b[i] ^= 1 << tape::choose(8);
                        *self.fired.borrow_mut().entry("corrupt_pake3_confirmation").or_default() += 1;
                        // Retransmissions of one Pake3 are one failed proof
                        if !self.seen.iter().any(|(s, b)| *s == usize::MAX - _rec.src && b[..] == plain.ctr.to_le_bytes()[..]) {
                            self.seen.push((usize::MAX - _rec.src, plain.ctr.to_le_bytes().to_vec()));
                            *self.fired.borrow_mut().entry("corrupt_pake3_distinct_messages").or_default() += 1;
                        }
                        return vec![Fate { delay: lat, bytes: Some(b), redirect: None, spoof_src: None }];
                    }
                }
            }
        }
        let p_mut = if secured { cfg.mutate_secured_permille } else { cfg.mutate_unsecured_permille };
        if p_mut > 0 && !_rec.bytes.is_empty() && tape::chance(p_mut) {
            let mut b = _rec.bytes.clone();
            match tape::weighted(&[700, 100, 100, 100]) {
                1 => {
                    let n = tape::choose(b.len() as u32) as usize;
                    b.truncate(n);
                    *self.fired.borrow_mut().entry("mutate_truncate").or_default() += 1;
                }
                2 => {
                    let n = 1 + tape::choose(16);
                    for _ in 0..n {
                        b.push(tape::choose(256) as u8);
                    }
                    *self.fired.borrow_mut().entry("mutate_extend").or_default() += 1;
                }
                3 => {
                    let i = tape::choose(b.len() as u32) as usize;
                    b[i] = tape::choose(256) as u8;
                    *self.fired.borrow_mut().entry("mutate_byte").or_default() += 1;
                }
                _ => {
                    let i = tape::choose(b.len() as u32) as usize;
                    b[i] ^= 1 << tape::choose(8);
                    *self.fired.borrow_mut().entry("mutate_bitflip").or_default() += 1;
                }
            }
            return vec![Fate {
                delay: lat,
                bytes: Some(b),
                redirect: None,
                spoof_src: None,
            }];
        }
        if cfg.replay_permille > 0 {
            let candidates: Vec<usize> = self.seen.iter().enumerate().filter(|(_, (s, _))| *s == _rec.src).map(|(i, _)| i).collect();
            let do_replay = !candidates.is_empty() && tape::chance(cfg.replay_permille);
            if self.seen.len() < 256 {
                self.seen.push((_rec.src, _rec.bytes.clone()));
            }
            if do_replay {
                let i = candidates[tape::choose(candidates.len() as u32) as usize];
                *self.fired.borrow_mut().entry("replay_substitute").or_default() += 1;
                return vec![Fate {
                    delay: lat,
                    bytes: Some(self.seen[i].1.clone()),
                    redirect: None,
                    spoof_src: None,
                }];
            }
        }
        let benign = 1000u32.saturating_sub(cfg.drop_permille + cfg.dup_permille + cfg.hold_permille);
        let mut fire = |k: &'static str| *self.fired.borrow_mut().entry(k).or_default() += 1;
        match tape::weighted(&[benign, cfg.drop_permille, cfg.dup_permille, cfg.hold_permille]) {
            1 => {
                fire("drop");
                vec![]
            }
            2 => {
                fire("dup");
                vec![
                    Fate::deliver(lat),
                    Fate::deliver(lat + tape::range(0, cfg.hold_max_ms) * MS),
                ]
            }
            3 => {
                fire("hold");
                vec![Fate::deliver(lat + tape::range(1, cfg.hold_max_ms.max(1)) * MS)]
            }
            _ => vec![Fate::deliver(lat)],
        }
    }
}

#[derive(Clone, Debug)]
pub struct CtlSpec {
    pub fabric_id: u64,
    pub node_id: u64,
    pub script: Vec<CtlStep>,
    pub continue_on_error: bool,
}

#[derive(Clone, Debug)]
pub struct FullCfg {
    pub n_devices: usize,
    pub controllers: Vec<CtlSpec>,
    pub handlers: usize,
    pub net: UniformNet,
    pub sched: SchedCfg,
    pub limit_us: u64,
    /// KV faults of device 0: mutating-op index -> fault
    pub kv_faults: Vec<(usize, KvFault)>,
    /// Crash device 0 at these global times (between polls)
    pub crashes: Vec<u64>,
    /// Restart a crashed device after this long
    pub restart_after_us: u64,
    /// (time, node, task name, k): cancel (drop) the k-th task of that name at its current await point
    pub cancels: Vec<(u64, usize, &'static str, usize)>,
    /// From this global time on the network adversary is switched off (faults stop)
    pub calm_at_us: Option<u64>,
}

#[derive(Clone, Debug)]
pub struct FullXEvent {
    pub tap_pos: usize,
    pub time: u64,
    pub node: usize,
    pub incarnation: u32,
    pub ev: Event,
}

pub struct FullRun {
    pub cfg: FullCfg,
    pub log: Vec<FullEv>,
    pub tap: Vec<TapEvent>,
    pub events: Vec<FullXEvent>,
    pub snaps: Vec<Option<Snapshot>>,
    /// Device states published by the probe: at the end of the run
    pub dev_states: Vec<Option<DevState>>,
    pub kv: Vec<KvRec>,
    pub kv_final: BTreeMap<u16, Vec<u8>>,
    pub stop: StopReason,
    pub end_time: u64,
    pub exec: ExecStats,
    pub net: NetStats,
    pub fired: BTreeMap<&'static str, u64>,
    pub all_done: bool,
    pub device_incarnations: u32,
    /// CASE session pairs (device 0 <-> a controller, matched by their session ids and
    /// addresses) whose directional keys differed at some probe: (time, device session id,
    /// controller node, controller session id)
    pub key_mismatches: Vec<(u64, u32, usize, u32)>,
    pub session_pairs_compared: u64,
}

pub fn drive_full(seed: u64, cfg: FullCfg) -> FullRun {
    drive_full_with(seed, cfg, &mut |_, _| {})
}

/// Like `drive_full`; `step_hook(time, device states)` is invoked after every executor slice
/// (at most 100 ms of simulated time) with freshly probed device states.
pub fn drive_full_with(seed: u64, cfg: FullCfg, step_hook: &mut dyn FnMut(u64, &[Option<DevState>])) -> FullRun {
    let n_nodes = cfg.n_devices + cfg.controllers.len();
    let fired = Rc::new(RefCell::new(BTreeMap::new()));
    let calm = Rc::new(Cell::new(false));
    let net = Net::new(Box::new(UniformAdversary {
        cfg: cfg.net.clone(),
        fired: fired.clone(),
        calm: calm.clone(),
        seen: Vec::new(),
        pake2_seen: Vec::new(),
    }));
    let log: FullLog = Rc::new(RefCell::new(Vec::new()));
    let events: Rc<RefCell<Vec<FullXEvent>>> = Rc::new(RefCell::new(Vec::new()));
    let incs: Rc<RefCell<Vec<u32>>> = Rc::new(RefCell::new(vec![0; n_nodes]));
    {
        let events = events.clone();
        let incs = incs.clone();
        let net = net.clone();
        rs_matter::verif::set_sink(Some(Box::new(move |ev| {
            let node = kernel::cur_node().unwrap_or(usize::MAX);
            let incarnation = incs.borrow().get(node).copied().unwrap_or(0);
            events.borrow_mut().push(FullXEvent {
                tap_pos: net.tap_len(),
                time: kernel::now(),
                node,
                incarnation,
                ev,
            });
        })));
    }

    let snaps: Vec<Rc<RefCell<Option<Snapshot>>>> = (0..n_nodes).map(|_| Rc::new(RefCell::new(None))).collect();
    let dstates: Vec<Rc<RefCell<Option<DevState>>>> = (0..cfg.n_devices).map(|_| Rc::new(RefCell::new(None))).collect();
    let kvs: Vec<SimKv> = (0..cfg.n_devices).map(|_| SimKv::new()).collect();
    for (idx, f) in &cfg.kv_faults {
        kvs[0].set_fault(*idx, *f);
    }
    let crash_flags: Vec<Rc<Cell<bool>>> = (0..cfg.n_devices).map(|_| Rc::new(Cell::new(false))).collect();
    for (kv, f) in kvs.iter().zip(&crash_flags) {
        kv.set_crash_flag(f.clone());
    }
    let dones: Vec<Rc<Cell<bool>>> = cfg.controllers.iter().map(|_| Rc::new(Cell::new(false))).collect();

    let mut exec = Exec::new(cfg.sched.clone());
    let mut wakes = Vec::new();
    for node in 0..n_nodes {
        let (n, wake) = exec.add_node();
        assert_eq!(n, node);
        wakes.push(wake);
    }
    let spawn_device = |exec: &mut Exec, dev: usize, inc: u32| {
        incs.borrow_mut()[dev] = inc;
        let ctx = DeviceCtx {
            node: dev,
            incarnation: inc,
            seed,
            net: net.clone(),
            wake: wakes[dev].clone(),
            kv: kvs[dev].clone(),
            crash_flag: crash_flags[dev].clone(),
            n_handlers: cfg.handlers,
            log: log.clone(),
            snap: snaps[dev].clone(),
            state: dstates[dev].clone(),
            open_window_if_uncommissioned: true,
        };
        exec.spawn(dev, move |shared| device_root(ctx, shared));
    };
    for dev in 0..cfg.n_devices {
        exec.set_kill_flag(dev, crash_flags[dev].clone());
        spawn_device(&mut exec, dev, 1);
    }
    for (i, c) in cfg.controllers.iter().enumerate() {
        let node = cfg.n_devices + i;
        incs.borrow_mut()[node] = 1;
        let ctx = ControllerCtx {
            node,
            incarnation: 1,
            seed,
            net: net.clone(),
            wake: wakes[node].clone(),
            log: log.clone(),
            snap: snaps[node].clone(),
            fabric_id: c.fabric_id,
            node_id: c.node_id,
            script: c.script.clone(),
            continue_on_error: c.continue_on_error,
            done: dones[i].clone(),
        };
        exec.spawn(node, move |shared| controller_root(ctx, shared));
    }

    let mut crashes = cfg.crashes.clone();
    crashes.sort();
    crashes.reverse();
    let mut cancels = cfg.cancels.clone();
    cancels.sort();
    cancels.reverse();
    let mut restart_at: Option<u64> = None;
    let mut key_mismatches: Vec<(u64, u32, usize, u32)> = Vec::new();
    let mut session_pairs_compared = 0u64;
    let mut dev_inc = 1u32;
    let mut stop;
    let mut all_done = false;
    let fine = FINE_PROBE.with(|c| c.take());
    let blob_damage = BLOB_DAMAGE.with(|c| c.borrow_mut().take());
    loop {
        let mut step = 100 * MS;
        if let Some((from, to, fstep)) = fine {
            let now = kernel::now();
            if now >= from && now < to {
                step = fstep;
            } else if now < from {
                step = step.min(from - now);
            }
        }
        if let Some(t) = crashes.last() {
            step = step.min(t.saturating_sub(kernel::now()).max(1));
        }
        if let Some(t) = restart_at {
            step = step.min(t.saturating_sub(kernel::now()).max(1));
        }
        if let Some((t, _, _, _)) = cancels.last() {
            step = step.min(t.saturating_sub(kernel::now()).max(1));
        }
        if let Some(t) = cfg.calm_at_us {
            if kernel::now() >= t {
                calm.set(true);
            } else {
                step = step.min(t - kernel::now());
            }
        }
        stop = exec.run_for(step);
        while matches!(cancels.last(), Some((t, _, _, _)) if *t <= kernel::now()) {
            let (_, node, name, k) = cancels.pop().unwrap();
            if exec.is_up(node) {
                let idx: Vec<usize> = exec
                    .task_names(node)
                    .iter()
                    .enumerate()
                    .filter(|(_, n)| **n == name)
                    .map(|(i, _)| i)
                    .collect();
                if !idx.is_empty() {
                    exec.cancel_task(node, idx[k % idx.len()]);
                    *fired.borrow_mut().entry("cancel_task").or_default() += 1;
                }
            }
        }
        if matches!(stop, StopReason::MaxPolls) {
            break;
        }
        {
            for dev in 0..cfg.n_devices {
                if exec.is_up(dev) {
                    exec.probe(dev);
                } else {
                    *dstates[dev].borrow_mut() = None;
                }
            }
            let states: Vec<Option<DevState>> = dstates.iter().map(|s| s.borrow().clone()).collect();
            step_hook(kernel::now(), &states);
            // Both ends of every established CASE session hold the same keys
            if let Some(Some(dev)) = states.first() {
                use rs_matter::transport::session::SessionMode;
                for node in cfg.n_devices..n_nodes {
                    if !exec.is_up(node) {
                        continue;
                    }
                    exec.probe(node);
                    let snap = snaps[node].borrow();
                    let Some(x) = snap.as_ref() else {
                        continue;
                    };
                    for ds in dev.snap.sessions.iter().filter(|s| matches!(s.mode, SessionMode::Case { .. }) && !s.reserved && !s.expired) {
                        if crate::net::addr_node(&ds.peer_addr) != Some(node) {
                            continue;
                        }
                        for xs in x.sessions.iter().filter(|s| matches!(s.mode, SessionMode::Case { .. }) && !s.reserved && !s.expired) {
                            if ds.local_sess_id == xs.peer_sess_id
                                && ds.peer_sess_id == xs.local_sess_id
                                && crate::net::addr_node(&xs.peer_addr) == Some(0)
                            {
                                session_pairs_compared += 1;
                                if (ds.enc_key != xs.dec_key || ds.dec_key != xs.enc_key)
                                    && !key_mismatches.iter().any(|m: &(u64, u32, usize, u32)| m.1 == ds.id && m.2 == node && m.3 == xs.id)
                                {
                                    key_mismatches.push((kernel::now(), ds.id, node, xs.id));
                                    if std::env::var_os("VERIF_DUMP").is_some() {
                                        eprintln!("MISMATCH t={} dev_inc={} DEV {:?}\n   CTL {:?}", kernel::now(), dev_inc, ds, xs);
                                    }
                                }
                            }
                        }
                    }
                }
            }
        }
        // Crash requested by the KV store (crash at an op): kill right after the poll returned
        if !exec.is_up(0) && kvs[0].crashed() && restart_at.is_none() {
            net.set_up(0, false);
            *fired.borrow_mut().entry("crash_at_kv_op").or_default() += 1;
            restart_at = Some(kernel::now() + cfg.restart_after_us);
        }
        while matches!(crashes.last(), Some(t) if *t <= kernel::now()) {
            crashes.pop();
            if exec.is_up(0) {
                exec.kill(0);
                net.set_up(0, false);
                *fired.borrow_mut().entry("crash_between_polls").or_default() += 1;
                restart_at = Some(kernel::now() + cfg.restart_after_us);
            }
        }
        if matches!(restart_at, Some(t) if t <= kernel::now()) {
            restart_at = None;
            dev_inc += 1;
            if let Some((key, dmg)) = &blob_damage {
                let mut kv = kvs[0].0.borrow_mut();
                if let Some(blob) = kv.data.get_mut(key) {
                    let mut r = crate::tape::Rng::new(0);
                    match dmg {
                        BlobDamage::Empty => blob.clear(),
                        BlobDamage::Truncate(n) => blob.truncate(*n % blob.len().max(1)),
                        BlobDamage::FlipBit(i, b) => {
                            if !blob.is_empty() {
                                let i = *i % blob.len();
                                blob[i] ^= 1 << (*b & 7);
                            }
                        }
                        BlobDamage::SetByte(i, v) => {
                            if !blob.is_empty() {
                                let i = *i % blob.len();
                                blob[i] = *v;
                            }
                        }
                        BlobDamage::Garbage(n, seed) => {
                            r = crate::tape::Rng::new(*seed);
                            *blob = (0..*n).map(|_| r.next_u64() as u8).collect();
                        }
                        BlobDamage::Extend(n, seed) => {
                            r = crate::tape::Rng::new(*seed);
                            blob.extend((0..*n).map(|_| r.next_u64() as u8));
                        }
                    }
                    let _ = &r;
                    *fired.borrow_mut().entry("blob_damaged_while_down").or_default() += 1;
                }
            }
            net.set_up(0, true);
            spawn_device(&mut exec, 0, dev_inc);
        }
        if dones.iter().all(|d| d.get()) && restart_at.is_none() {
            all_done = true;
            break;
        }
        if kernel::now() >= cfg.limit_us {
            break;
        }
    }
    // Let pending acknowledgements and persistence jobs finish
    calm.set(true);
    if !matches!(stop, StopReason::MaxPolls) {
        stop = exec.run_for(3 * SEC);
    }
    for node in 0..n_nodes {
        exec.probe(node);
    }
    let end_time = kernel::now();
    let exec_stats = exec.stats.clone();
    exec.shutdown();
    drop(exec);
    rs_matter::verif::set_sink(None);

    let tap = net.take_tap();
    let log = std::mem::take(&mut *log.borrow_mut());
    let events = std::mem::take(&mut *events.borrow_mut());
    let fired = fired.borrow().clone();
    let kv_log = kvs[0].0.borrow().log.clone();
    let kv_final = kvs[0].snapshot();
    FullRun {
        cfg,
        log,
        tap,
        events,
        snaps: snaps.iter().map(|s| s.borrow().clone()).collect(),
        dev_states: dstates.iter().map(|s| s.borrow().clone()).collect(),
        kv: kv_log,
        kv_final,
        stop,
        end_time,
        exec: exec_stats,
        net: net.stats(),
        fired,
        all_done,
        device_incarnations: dev_inc,
        key_mismatches,
        session_pairs_compared,
    }
}
