//! The "full world": a real device (system clusters + Interaction Model + secure channel
//! responder, persistent KV) and real controllers (Commissioner, IM client), over the simulated
//! network, clock and KV store. Serves the handshake, IM and admin properties.

use std::cell::{Cell, RefCell};
use std::num::NonZeroU8;
use std::rc::Rc;

use embassy_time::{Duration, Timer};
use rand_core::RngCore;

use rs_matter::cert::gen::VALID_FOREVER;
use rs_matter::cert::{MAX_CERT_TLV_AND_ASN1_LEN, MAX_CERT_TLV_LEN};
use rs_matter::crypto::{default_crypto, CanonAeadKey, CanonPkcSecretKey, Crypto, SecretKey, SigningSecretKey};
use rs_matter::dm::clusters::app::level_control::LevelControlHooks;
use rs_matter::dm::clusters::app::on_off::{self, test::TestOnOffDeviceLogic, OnOffHooks};
use rs_matter::dm::clusters::desc::{self, ClusterHandler as _};
use rs_matter::dm::clusters::groups::{self, ClusterHandler as _, GroupsHandler};
use rs_matter::dm::clusters::net_comm::DummyNetworks;
use rs_matter::dm::devices::test::{DAC_PRIVKEY, TEST_DEV_ATT, TEST_DEV_COMM, TEST_DEV_DET};
use rs_matter::dm::devices::DEV_TYPE_ON_OFF_LIGHT;
use rs_matter::dm::{endpoints, Async, DataModel, Dataver, Endpoint, EpClMatcher, Node};
use rs_matter::error::Error;
use rs_matter::im::subscriptions::DEFAULT_MAX_SUBSCRIPTIONS;
use rs_matter::im::{InteractionModel, InteractionModelState};
use rs_matter::onboard::cac::{IcacGenerator, RcacGenerator};
use rs_matter::onboard::noc::NocGenerator;
use rs_matter::onboard::{CommissionOptions, Commissioner};
use rs_matter::respond::Responder;
use rs_matter::sc::pase::MAX_COMM_WINDOW_TIMEOUT_SECS;
use rs_matter::transport::exchange::{Exchange, MatterBuffers};
use rs_matter::transport::network::mdns::{DottedName, MdnsRemoteService};
use rs_matter::transport::network::{Address, IpAddr, MatterRemoteService, SocketAddr};
use rs_matter::verif::Snapshot;
use rs_matter::{clusters, devices, root_endpoint, Matter};

use crate::kernel::{self, NodeShared, RootFut, SimTasks, TaskDef};
use crate::kv::SimKv;
use crate::net::{self, Net};
use crate::tape::{NodeRng, Rng};

pub const TEST_PASSCODE: u32 = 20202021;
pub const GROUP_ID: u16 = 0x002A;
pub const GROUP_KEY_SET_ID: u16 = 0x01A3;

pub const NODE: Node<'static> = Node {
    endpoints: &[
        root_endpoint!(eth),
        Endpoint::new(
            1,
            devices!(DEV_TYPE_ON_OFF_LIGHT),
            clusters!(desc::DescHandler::CLUSTER, groups::GroupsHandler::CLUSTER, TestOnOffDeviceLogic::CLUSTER),
        ),
    ],
};

fn data_model<'a, OH: OnOffHooks, LH: LevelControlHooks>(
    mut rand: impl RngCore + Copy,
    on_off: &'a on_off::OnOffHandler<'a, OH, LH>,
) -> impl DataModel + 'a {
    (
        NODE,
        endpoints::EthSysHandlerBuilder::new()
            .build(rand)
            .chain(
                EpClMatcher::new(Some(1), Some(desc::DescHandler::CLUSTER.id)),
                Async(desc::DescHandler::new(Dataver::new_rand(&mut rand)).adapt()),
            )
            .chain(
                EpClMatcher::new(Some(1), Some(groups::GroupsHandler::CLUSTER.id)),
                Async(GroupsHandler::new(Dataver::new_rand(&mut rand)).adapt()),
            )
            .chain(
                EpClMatcher::new(Some(1), Some(TestOnOffDeviceLogic::CLUSTER.id)),
                on_off::HandlerAsyncAdaptor(on_off),
            ),
    )
}

/// Application-level events of the full world
#[derive(Clone, Debug, PartialEq, Eq)]
pub enum FullKind {
    /// A controller step started / ended (name, result code; 0xffff = ok)
    Step { name: &'static str, result: Option<u16> },
    /// A value read from the device
    ReadOnOff { value: bool },
    DeviceUp,
    DeviceStartupErr(u16),
    Note(String),
}

#[derive(Clone, Debug)]
pub struct FullEv {
    pub time: u64,
    pub local_time: u64,
    pub node: usize,
    pub incarnation: u32,
    pub kind: FullKind,
}

pub type FullLog = Rc<RefCell<Vec<FullEv>>>;

pub fn log_ev(log: &FullLog, node: usize, incarnation: u32, kind: FullKind) {
    kernel::trace("full", node as u64, incarnation as u64, format!("{kind:?}").as_bytes());
    log.borrow_mut().push(FullEv {
        time: kernel::now(),
        local_time: kernel::local_now(),
        node,
        incarnation,
        kind,
    });
}

pub fn code(r: &Result<(), Error>) -> u16 {
    match r {
        Ok(()) => 0xffff,
        Err(e) => e.code() as u16,
    }
}

#[derive(Clone, Debug, PartialEq, Eq)]
pub struct FabricInfo {
    pub fab_idx: u8,
    pub node_id: u64,
    pub fabric_id: u64,
    pub vendor_id: u16,
    pub label: String,
    pub root_hash: u64,
    pub noc_hash: u64,
    pub icac_hash: u64,
    pub acl: Vec<String>,
    /// Group table, group key map and ids of the group key sets (Debug renderings)
    pub groups: Vec<String>,
}

/// What the device probe publishes
#[derive(Clone, Debug)]
pub struct DevState {
    pub snap: Snapshot,
    pub fabrics: Vec<FabricInfo>,
    pub window_open: bool,
    pub commissionable_advertised: bool,
    pub operational_advertised: Vec<u64>,
    pub on_off: Option<bool>,
}

pub fn hash_bytes(b: &[u8]) -> u64 {
    let mut h: u64 = 0xcbf2_9ce4_8422_2325;
    for x in b {
        h ^= *x as u64;
        h = h.wrapping_mul(0x0000_0100_0000_01B3);
    }
    h
}

pub fn dev_state(matter: &Matter<'_>) -> DevState {
    use rs_matter::transport::network::MatterLocalService;
    let fabrics = matter.with_state(|state| {
        state
            .fabrics
            .iter()
            .map(|f| FabricInfo {
                fab_idx: f.fab_idx().get(),
                node_id: f.node_id(),
                fabric_id: f.fabric_id(),
                vendor_id: f.vendor_id(),
                label: f.label().to_string(),
                root_hash: hash_bytes(f.root_ca()),
                noc_hash: hash_bytes(f.noc()),
                icac_hash: hash_bytes(f.icac()),
                acl: f
                    .acl_iter()
                    .map(|a| {
                        format!(
                            "{a:?} subjects={:?} targets={:?}",
                            a.subjects().into_option().map(|s| s.to_vec()),
                            a.targets().into_option().map(|t| t.to_vec())
                        )
                    })
                    .collect(),
                groups: f
                    .groups()
                    .iter()
                    .map(|g| format!("group {g:?}"))
                    .chain(f.groups().key_map_iter().map(|m| format!("map {m:?}")))
                    .chain(f.groups().key_set_iter().map(|k| format!("key set {}", k.group_key_set_id)))
                    .collect(),
            })
            .collect()
    });
    let mut commissionable = false;
    let mut operational = Vec::new();
    let _ = matter.mdns_services(|s| {
        match s {
            MatterLocalService::Commissionable { .. } => commissionable = true,
            MatterLocalService::Commissioned { node_id, .. } => operational.push(node_id),
        }
        Ok(())
    });
    DevState {
        snap: matter.verif_snapshot(),
        fabrics,
        window_open: matter.comm_window_state().is_open(),
        commissionable_advertised: commissionable,
        operational_advertised: operational,
        on_off: None,
    }
}

pub struct DeviceCtx {
    pub node: usize,
    pub incarnation: u32,
    pub seed: u64,
    pub net: Net,
    pub wake: std::sync::Arc<kernel::NodeWake>,
    pub kv: SimKv,
    pub crash_flag: Rc<Cell<bool>>,
    pub n_handlers: usize,
    pub log: FullLog,
    pub snap: Rc<RefCell<Option<Snapshot>>>,
    pub state: Rc<RefCell<Option<DevState>>>,
    /// Open the basic commissioning window at boot when the device has no fabric
    pub open_window_if_uncommissioned: bool,
}

pub fn device_root(ctx: DeviceCtx, shared: Rc<NodeShared>) -> RootFut {
    Box::pin(async move {
        let matter = Matter::new(&TEST_DEV_DET, TEST_DEV_COMM, &TEST_DEV_ATT, net::PORT);
        let rng = NodeRng(Rng::new(
            ctx.seed ^ ((ctx.node as u64) << 48) ^ ((ctx.incarnation as u64) << 32) ^ 0xD0D0,
        ));
        let crypto = default_crypto(rng, DAC_PRIVKEY);
        let mut rand = crypto.rand().unwrap();

        let buffers: MatterBuffers = MatterBuffers::new();
        let state: InteractionModelState<DummyNetworks, DEFAULT_MAX_SUBSCRIPTIONS, 1024> =
            InteractionModelState::new(DummyNetworks);

        let on_off_handler = on_off::OnOffHandler::new_standalone(
            Dataver::new_rand(&mut rand),
            1,
            TestOnOffDeviceLogic::new(false),
        );

        ctx.kv.new_incarnation(ctx.incarnation);
        let kv = matter.kv(ctx.kv.clone());

        // The documented boot order: Matter::new -> Matter::startup -> InteractionModel::startup
        if let Err(e) = matter.startup(&kv) {
            log_ev(&ctx.log, ctx.node, ctx.incarnation, FullKind::DeviceStartupErr(e.code() as u16));
        }

        let dm = InteractionModel::new(
            &matter,
            &crypto,
            &buffers,
            data_model(rand, &on_off_handler),
            &kv,
            &state,
        );
        if let Err(e) = dm.startup().await {
            log_ev(&ctx.log, ctx.node, ctx.incarnation, FullKind::DeviceStartupErr(e.code() as u16));
        }

        if ctx.open_window_if_uncommissioned && !matter.has_fabrics() {
            let _ = matter.open_basic_comm_window(MAX_COMM_WINDOW_TIMEOUT_SECS, &crypto, &());
        }
        log_ev(&ctx.log, ctx.node, ctx.incarnation, FullKind::DeviceUp);

        let responder = Responder::new_default(&dm);
        let busy = Responder::new_busy(&matter, 500);

        let mut tasks: Vec<TaskDef<'_>> = Vec::new();
        {
            let matter = &matter;
            let crypto = &crypto;
            let net = ctx.net.clone();
            let wake = ctx.wake.clone();
            let node = ctx.node;
            let inc = ctx.incarnation;
            let crash_flag = ctx.crash_flag.clone();
            tasks.push(TaskDef::restartable("transport", move || {
                let (send, recv, mc) = net.attach(node, wake.clone(), inc);
                net.set_frozen_flag(node, crash_flag.clone());
                Box::pin(async move {
                    let _ = matter.run(crypto, send, recv, mc).await;
                })
            }));
        }
        for i in 0..ctx.n_handlers {
            let responder = &responder;
            tasks.push(TaskDef::restartable("handler", move || {
                Box::pin(async move {
                    let _ = responder.handle(i).await;
                })
            }));
        }
        {
            let busy = &busy;
            tasks.push(TaskDef::restartable("busy", move || {
                Box::pin(async move {
                    let _ = busy.handle(0).await;
                })
            }));
        }
        {
            let dm = &dm;
            tasks.push(TaskDef::restartable("im", move || {
                Box::pin(async move {
                    let _ = dm.run().await;
                })
            }));
        }
        {
            let matter = &matter;
            let kv = &kv;
            tasks.push(TaskDef::restartable("persist", move || {
                Box::pin(async move {
                    let _ = matter.run_persist_resumption(kv, Duration::from_secs(2)).await;
                })
            }));
        }

        let snap = ctx.snap.clone();
        let dstate = ctx.state.clone();
        let matter_ref = &matter;
        SimTasks::new(shared, tasks)
            .with_probe(move || {
                *snap.borrow_mut() = Some(matter_ref.verif_snapshot());
                *dstate.borrow_mut() = Some(dev_state(matter_ref));
            })
            .await
    })
}

/// A controller's script step
#[derive(Clone, Debug, PartialEq, Eq)]
pub enum CtlStep {
    /// Full commissioning of device `dev`: PASE, ArmFailSafe .. AddNOC, CASE, CommissioningComplete
    Commission { dev: usize },
    /// Only the first phase (PASE, ArmFailSafe .. AddNOC); CommissioningComplete is never sent
    CommissionPhase1 { dev: usize },
    /// Remove fabric `fabric_index` of the device (RemoveFabric over our CASE session)
    RemoveFabric { dev: usize, fabric_index: u8 },
    /// ArmFailSafe(secs) over our CASE session (0 = force expiry)
    ArmFailSafe { dev: usize, secs: u16 },
    /// OpenBasicCommissioningWindow over our CASE session
    OpenWindow { dev: usize, secs: u16 },
    /// RevokeCommissioning over our CASE session
    Revoke { dev: usize },
    /// Only establish a PASE session with the given passcode (an ArmFailSafe probe is not sent)
    PaseAttempt { dev: usize, passcode: u32 },
    /// Forget the CASE sessions we hold (the next operation establishes a fresh one, trying
    /// resumption first)
    DropSessions,
    ReadOnOff { dev: usize },
    Toggle { dev: usize },
    Sleep { ms: u32 },
    /// Sleep until the given (controller-local) time since start
    SleepUntil { ms: u32 },
    /// Abandon the rest of the script if it is later than the given (controller-local) time
    StopIfAfter { ms: u32 },
    /// ArmFailSafe over our CASE session; fails unless the device answers OK
    ArmFailSafeChecked { dev: usize, secs: u16 },
    /// CommissioningComplete over our CASE session; fails unless the device answers OK
    CommissioningCompleteCase { dev: usize },
    /// Replace our fabric's ACL over CASE by [administer: our node id, operate: `subject`]
    AclWrite { dev: usize, subject: u64 },
    /// KeySetWrite of group key set 0x01A3 and a GroupKeyMap entry for group 0x002A
    GroupKeys { dev: usize },
    /// AddGroup(0x002A, name) on endpoint 1; fails unless the device answers with status 0
    AddGroup { dev: usize, name: &'static str },
}

pub struct ControllerCtx {
    pub node: usize,
    pub incarnation: u32,
    pub seed: u64,
    pub net: Net,
    pub wake: std::sync::Arc<kernel::NodeWake>,
    pub log: FullLog,
    pub snap: Rc<RefCell<Option<Snapshot>>>,
    pub fabric_id: u64,
    pub node_id: u64,
    pub script: Vec<CtlStep>,
    pub continue_on_error: bool,
    pub done: Rc<Cell<bool>>,
}

struct DoneOnDrop<'a>(&'a Cell<bool>);

impl Drop for DoneOnDrop<'_> {
    fn drop(&mut self) {
        self.0.set(true);
    }
}

pub fn device_node_id(dev: usize) -> u64 {
    0x0000_0000_0001_0000 + dev as u64
}

async fn stub_mdns(matter: &Matter<'_>) -> ! {
    loop {
        let service = matter.transport().wait_mdns_resolve_request().await;
        let MatterRemoteService::Operational { node_id, .. } = &service else {
            continue;
        };
        // Device node ids encode the simulated node index
        let dev = (*node_id & 0xffff) as usize;
        if dev >= 50 {
            // A node which does not exist: the query was taken up but nothing ever answers it
            continue;
        }
        let Address::Udp(SocketAddr::V6(sock)) = net::node_addr(dev) else {
            continue;
        };
        let mut name = heapless::String::<128>::new();
        service.instance_name(&mut name);
        matter.transport().try_deposit_mdns_resolve(
            &MdnsRemoteService {
                instance_name: DottedName(name.as_str()),
                port: Some(sock.port()),
                addrs: core::iter::once(IpAddr::V6(*sock.ip())),
                txt: core::iter::empty::<(&str, &str)>(),
                scope_id: 0,
            },
            &[],
        );
    }
}

pub fn controller_root(ctx: ControllerCtx, shared: Rc<NodeShared>) -> RootFut {
    Box::pin(async move {
        let matter = Matter::new(&TEST_DEV_DET, TEST_DEV_COMM, &TEST_DEV_ATT, 0);
        let rng = NodeRng(Rng::new(
            ctx.seed ^ ((ctx.node as u64) << 48) ^ ((ctx.incarnation as u64) << 32) ^ 0xC7C7,
        ));
        let crypto = default_crypto(rng, DAC_PRIVKEY);

        let mut tasks: Vec<TaskDef<'_>> = Vec::new();
        {
            let matter = &matter;
            let crypto = &crypto;
            let net = ctx.net.clone();
            let wake = ctx.wake.clone();
            let node = ctx.node;
            let inc = ctx.incarnation;
            tasks.push(TaskDef::restartable("transport", move || {
                let (send, recv, mc) = net.attach(node, wake.clone(), inc);
                Box::pin(async move {
                    let _ = matter.run(crypto, send, recv, mc).await;
                })
            }));
        }
        {
            let matter = &matter;
            tasks.push(TaskDef::once("mdns", async move {
                stub_mdns(matter).await;
            }));
        }
        {
            let matter = &matter;
            let crypto = &crypto;
            let ctx = &ctx;
            tasks.push(TaskDef::once("script", async move {
                // Also when the script is cancelled at some await point
                let _done = DoneOnDrop(&ctx.done);
                let r = controller_script(matter, crypto, ctx).await;
                log_ev(
                    &ctx.log,
                    ctx.node,
                    ctx.incarnation,
                    FullKind::Step {
                        name: "script",
                        result: Some(code(&r)),
                    },
                );
                ctx.done.set(true);
            }));
        }

        let snap = ctx.snap.clone();
        let matter_ref = &matter;
        SimTasks::new(shared, tasks)
            .with_probe(move || {
                *snap.borrow_mut() = Some(matter_ref.verif_snapshot());
            })
            .await
    })
}

async fn controller_script<C: Crypto>(matter: &Matter<'_>, crypto: &C, ctx: &ControllerCtx) -> Result<(), Error> {
    const ADMIN_VENDOR_ID: u16 = 0xFFF1;

    // ---- The controller's own CA and operational identity
    let note = |what: &str, e: &Error| {
        log_ev(&ctx.log, ctx.node, ctx.incarnation, FullKind::Note(format!("controller setup failed at {what}: {:?}", e.code())));
    };
    // `RcacGenerator` / `IcacGenerator` draw a random 8-byte serial number and reject it when it
    // starts with a redundant zero byte (1 in 512 draws; an rs-matter quirk outside the
    // properties checked here): simply draw again
    let (rcac_priv, rcac_vec) = {
        let mut tries = 0;
        loop {
            let mut buf = [0u8; MAX_CERT_TLV_AND_ASN1_LEN];
            let mut gen = RcacGenerator::new(&mut buf);
            match gen.generate(crypto, ctx.fabric_id, VALID_FOREVER) {
                Ok((k, c)) => break (k, c.to_vec()),
                Err(e) if tries < 8 => {
                    tries += 1;
                    note("rcac (retrying)", &e);
                }
                Err(e) => return Err(e),
            }
        }
    };
    let rcac: &[u8] = &rcac_vec;
    let (icac_priv, icac_vec) = {
        let mut tries = 0;
        loop {
            let mut buf = [0u8; MAX_CERT_TLV_AND_ASN1_LEN];
            let mut gen = IcacGenerator::new(&mut buf);
            match gen.generate(crypto, rcac_priv.reference(), rcac, VALID_FOREVER) {
                Ok((k, c)) => break (k, c.to_vec()),
                Err(e) if tries < 8 => {
                    tries += 1;
                    note("icac (retrying)", &e);
                }
                Err(e) => return Err(e),
            }
        }
    };
    let icac: &[u8] = &icac_vec;
    drop(rcac_priv);

    let secret_key = crypto.generate_secret_key()?;
    let mut csr_buf = [0u8; 256];
    let csr = secret_key.csr(&mut csr_buf).inspect_err(|e| note("csr", e))?;
    let mut secret_key_canon = CanonPkcSecretKey::new();
    secret_key.write_canon(&mut secret_key_canon)?;

    let mut noc_buf = [0u8; MAX_CERT_TLV_AND_ASN1_LEN];
    let mut noc_generator =
        NocGenerator::create(icac_priv.reference(), rcac, icac, &mut noc_buf).inspect_err(|e| note("noc generator", e))?;
    let noc = noc_generator
        .generate(crypto, csr, ctx.node_id, &[], VALID_FOREVER)
        .inspect_err(|e| note("noc", e))?;

    let mut ipk = CanonAeadKey::new();
    crypto.rand()?.fill_bytes(ipk.access_mut());

    let fab_idx = matter.with_state(|state| {
        state
            .fabrics
            .add(
                crypto,
                secret_key_canon.reference(),
                rcac,
                noc,
                icac,
                Some(ipk.reference()),
                ADMIN_VENDOR_ID,
                ctx.node_id,
            )
            .map(|f| f.fab_idx())
    })?;

    let mut commissioner_buf = [0u8; MAX_CERT_TLV_LEN];
    let mut commissioner = Commissioner::new(matter, crypto, fab_idx, &mut noc_generator, &mut commissioner_buf);

    for step in &ctx.script {
        if let CtlStep::StopIfAfter { ms } = step {
            if embassy_time::Instant::now().as_millis() >= *ms as u64 {
                break;
            }
            continue;
        }
        let name = match step {
            CtlStep::Commission { .. } => "commission",
            CtlStep::CommissionPhase1 { .. } => "commission_phase1",
            CtlStep::RemoveFabric { .. } => "remove_fabric",
            CtlStep::ArmFailSafe { .. } => "arm_failsafe",
            CtlStep::OpenWindow { .. } => "open_window",
            CtlStep::Revoke { .. } => "revoke",
            CtlStep::DropSessions => "drop_sessions",
            CtlStep::PaseAttempt { .. } => "pase_attempt",
            CtlStep::ReadOnOff { .. } => "read_onoff",
            CtlStep::Toggle { .. } => "toggle",
            CtlStep::Sleep { .. } => "sleep",
            CtlStep::SleepUntil { .. } => "sleep",
            CtlStep::StopIfAfter { .. } => "stop",
            CtlStep::ArmFailSafeChecked { .. } => "arm_failsafe_checked",
            CtlStep::CommissioningCompleteCase { .. } => "commissioning_complete_case",
            CtlStep::AclWrite { .. } => "acl_write",
            CtlStep::GroupKeys { .. } => "group_keys",
            CtlStep::AddGroup { .. } => "add_group",
        };
        log_ev(&ctx.log, ctx.node, ctx.incarnation, FullKind::Step { name, result: None });
        let r: Result<(), Error> = match step {
            CtlStep::Commission { dev } => {
                async {
                    let opts = CommissionOptions {
                        allow_test_attestation: true,
                        ..CommissionOptions::default()
                    };
                    let result = commissioner
                        .commission(net::node_addr(*dev), TEST_PASSCODE, &opts, device_node_id(*dev), VALID_FOREVER)
                        .await?;
                    log_ev(
                        &ctx.log,
                        ctx.node,
                        ctx.incarnation,
                        FullKind::Note(format!("commission phase 1 ok fabric_index={}", result.fabric_index)),
                    );
                    commissioner.complete_via_case(&result).await?;
                    Ok(())
                }
                .await
            }
            CtlStep::CommissionPhase1 { dev } => {
                async {
                    let opts = CommissionOptions {
                        allow_test_attestation: true,
                        ..CommissionOptions::default()
                    };
                    let result = commissioner
                        .commission(net::node_addr(*dev), TEST_PASSCODE, &opts, device_node_id(*dev), VALID_FOREVER)
                        .await?;
                    log_ev(
                        &ctx.log,
                        ctx.node,
                        ctx.incarnation,
                        FullKind::Note(format!("commission phase 1 ok fabric_index={}", result.fabric_index)),
                    );
                    Ok(())
                }
                .await
            }
            CtlStep::RemoveFabric { dev, fabric_index } => {
                async {
                    use rs_matter::dm::clusters::decl::operational_credentials::OperationalCredentialsClient;
                    let exchange = Exchange::initiate(matter, crypto, fab_idx, device_node_id(*dev)).await?;
                    let fi = *fabric_index;
                    let handle = exchange
                        .operational_credentials()
                        .remove_fabric(0, |req| req.fabric_index(fi)?.end())
                        .await?;
                    let status = handle.response()?.status_code()?;
                    handle.complete().await?;
                    log_ev(&ctx.log, ctx.node, ctx.incarnation, FullKind::Note(format!("remove_fabric -> {status:?}")));
                    if format!("{status:?}") == "OK" {
                        Ok(())
                    } else {
                        Err(rs_matter::error::ErrorCode::Failure.into())
                    }
                }
                .await
            }
            CtlStep::ArmFailSafe { dev, secs } => {
                async {
                    use rs_matter::dm::clusters::decl::general_commissioning::GeneralCommissioningClient;
                    let exchange = Exchange::initiate(matter, crypto, fab_idx, device_node_id(*dev)).await?;
                    let secs = *secs;
                    let handle = exchange
                        .general_commissioning()
                        .arm_fail_safe(0, |req| req.expiry_length_seconds(secs)?.breadcrumb(1)?.end())
                        .await?;
                    let code = handle.response()?.error_code()?;
                    handle.complete().await?;
                    log_ev(&ctx.log, ctx.node, ctx.incarnation, FullKind::Note(format!("arm_fail_safe -> {code:?}")));
                    Ok(())
                }
                .await
            }
            CtlStep::OpenWindow { dev, secs } => {
                async {
                    use rs_matter::dm::clusters::decl::administrator_commissioning::AdministratorCommissioningCmdRequests as _;
                    use rs_matter::im::client::ImClient as _;
                    let exchange = Exchange::initiate(matter, crypto, fab_idx, device_node_id(*dev)).await?;
                    let secs = *secs;
                    // The command is timed-only: precede it with a TimedRequest
                    let mut chunk = exchange
                        .invoke_with(Some(5_000), |msg| {
                            let view = msg.timed_request(true)?.invoke_requests()?.administrator_commissioning_inv();
                            let req = view.open_basic_commissioning_window(0)?;
                            req.commissioning_timeout(secs)?.end()?.end()?.end()?.end()
                        })
                        .await?;
                    while let Some(next) = chunk.complete().await? {
                        chunk = next;
                    }
                    Ok(())
                }
                .await
            }
            CtlStep::Revoke { dev } => {
                async {
                    use rs_matter::dm::clusters::decl::administrator_commissioning::AdministratorCommissioningCmdRequests as _;
                    use rs_matter::im::client::ImClient as _;
                    let exchange = Exchange::initiate(matter, crypto, fab_idx, device_node_id(*dev)).await?;
                    let mut chunk = exchange
                        .invoke_with(Some(5_000), |msg| {
                            let view = msg.timed_request(true)?.invoke_requests()?.administrator_commissioning_inv();
                            view.revoke_commissioning(0)?.end()?.end()
                        })
                        .await?;
                    while let Some(next) = chunk.complete().await? {
                        chunk = next;
                    }
                    Ok(())
                }
                .await
            }
            CtlStep::PaseAttempt { dev, passcode } => {
                async {
                    let exchange = Exchange::initiate_pase(matter, crypto, net::node_addr(*dev), *passcode).await?;
                    drop(exchange);
                    Ok(())
                }
                .await
            }
            CtlStep::DropSessions => {
                matter.with_state(|state| {
                    let _ = state;
                });
                let _ = matter.reset_transport();
                Ok(())
            }
            CtlStep::ReadOnOff { dev } => {
                async {
                    use rs_matter::dm::clusters::app::on_off::OnOffClient;
                    let exchange = Exchange::initiate(matter, crypto, fab_idx, device_node_id(*dev)).await?;
                    let v = exchange.on_off().on_off_read(1).await?;
                    log_ev(&ctx.log, ctx.node, ctx.incarnation, FullKind::ReadOnOff { value: v });
                    Ok(())
                }
                .await
            }
            CtlStep::Toggle { dev } => {
                async {
                    use rs_matter::dm::clusters::app::on_off::OnOffClient;
                    let exchange = Exchange::initiate(matter, crypto, fab_idx, device_node_id(*dev)).await?;
                    exchange.on_off().toggle(1).await?;
                    Ok(())
                }
                .await
            }
            CtlStep::Sleep { ms } => {
                Timer::after(Duration::from_millis(*ms as u64)).await;
                Ok(())
            }
            CtlStep::SleepUntil { ms } => {
                Timer::at(embassy_time::Instant::from_millis(*ms as u64)).await;
                Ok(())
            }
            CtlStep::StopIfAfter { .. } => Ok(()),
            CtlStep::ArmFailSafeChecked { dev, secs } => {
                async {
                    use rs_matter::dm::clusters::decl::general_commissioning::{CommissioningErrorEnum, GeneralCommissioningClient};
                    let exchange = Exchange::initiate(matter, crypto, fab_idx, device_node_id(*dev)).await?;
                    let secs = *secs;
                    let handle = exchange
                        .general_commissioning()
                        .arm_fail_safe(0, |req| req.expiry_length_seconds(secs)?.breadcrumb(7)?.end())
                        .await?;
                    let code = handle.response()?.error_code()?;
                    handle.complete().await?;
                    log_ev(&ctx.log, ctx.node, ctx.incarnation, FullKind::Note(format!("arm_fail_safe -> {code:?}")));
                    if code != CommissioningErrorEnum::OK {
                        return Err(rs_matter::error::ErrorCode::Failure.into());
                    }
                    Ok(())
                }
                .await
            }
            CtlStep::CommissioningCompleteCase { dev } => {
                async {
                    use rs_matter::dm::clusters::decl::general_commissioning::{CommissioningErrorEnum, GeneralCommissioningClient};
                    let exchange = Exchange::initiate(matter, crypto, fab_idx, device_node_id(*dev)).await?;
                    let handle = exchange.general_commissioning().commissioning_complete(0).await?;
                    let code = handle.response()?.error_code()?;
                    handle.complete().await?;
                    log_ev(&ctx.log, ctx.node, ctx.incarnation, FullKind::Note(format!("commissioning_complete -> {code:?}")));
                    if code != CommissioningErrorEnum::OK {
                        return Err(rs_matter::error::ErrorCode::Failure.into());
                    }
                    Ok(())
                }
                .await
            }
            CtlStep::GroupKeys { dev } => {
                async {
                    use rs_matter::dm::clusters::decl::group_key_management::{
                        GroupKeyManagementAttrWrites as _, GroupKeyManagementClient as _, GroupKeyMulticastPolicyEnum, GroupKeySecurityPolicyEnum,
                    };
                    use rs_matter::im::client::ImClient as _;
                    use rs_matter::tlv::{Nullable, OctetStr};
                    let exchange = Exchange::initiate(matter, crypto, fab_idx, device_node_id(*dev)).await?;
                    exchange
                        .group_key_management()
                        .key_set_write(0, |b| {
                            b.group_key_set()?
                                .group_key_set_id(GROUP_KEY_SET_ID)?
                                .group_key_security_policy(GroupKeySecurityPolicyEnum::TrustFirst)?
                                .epoch_key_0(Nullable::some(OctetStr::new(&[0x5a; 16])))?
                                .epoch_start_time_0(Nullable::some(1))?
                                .epoch_key_1(Nullable::none())?
                                .epoch_start_time_1(Nullable::none())?
                                .epoch_key_2(Nullable::none())?
                                .epoch_start_time_2(Nullable::none())?
                                .group_key_multicast_policy(GroupKeyMulticastPolicyEnum::PerGroupID)?
                                .end()?
                                .end()
                        })
                        .await?;
                    let exchange = Exchange::initiate(matter, crypto, fab_idx, device_node_id(*dev)).await?;
                    let handle = exchange
                        .write_with(None, |builder| {
                            let entries = builder.write_requests()?;
                            let map = entries.group_key_management_write().group_key_map(0)?;
                            let map = map.push()?.group_id(GROUP_ID)?.group_key_set_id(GROUP_KEY_SET_ID)?.fabric_index(None)?.end()?;
                            map.end()?.end()?.end()?.end()
                        })
                        .await?;
                    let resp = handle.response()?;
                    for status in resp.write_responses.iter() {
                        let status = status?;
                        if status.status.status != rs_matter::im::IMStatusCode::Success {
                            return Err(rs_matter::error::ErrorCode::Failure.into());
                        }
                    }
                    Ok(())
                }
                .await
            }
            CtlStep::AddGroup { dev, name } => {
                async {
                    use rs_matter::dm::clusters::decl::groups::GroupsClient as _;
                    let exchange = Exchange::initiate(matter, crypto, fab_idx, device_node_id(*dev)).await?;
                    let name = *name;
                    let handle = exchange.groups().add_group(1, |b| b.group_id(GROUP_ID)?.group_name(name)?.end()).await?;
                    let st = handle.response()?.status()?;
                    handle.complete().await?;
                    if st != 0 {
                        log_ev(&ctx.log, ctx.node, ctx.incarnation, FullKind::Note(format!("add_group -> status {st}")));
                        return Err(rs_matter::error::ErrorCode::Failure.into());
                    }
                    Ok(())
                }
                .await
            }
            CtlStep::AclWrite { dev, subject } => {
                async {
                    use rs_matter::dm::clusters::decl::access_control::{
                        AccessControlAttrWrites as _, AccessControlEntryAuthModeEnum, AccessControlEntryPrivilegeEnum,
                    };
                    use rs_matter::im::client::ImClient as _;
                    let exchange = Exchange::initiate(matter, crypto, fab_idx, device_node_id(*dev)).await?;
                    let me = ctx.node_id;
                    let other = *subject;
                    let handle = exchange
                        .write_with(None, |builder| {
                            let entries = builder.write_requests()?;
                            let acl = entries.access_control_write().acl(0)?;
                            let acl = acl
                                .push()?
                                .privilege(Some(AccessControlEntryPrivilegeEnum::Administer))?
                                .auth_mode(Some(AccessControlEntryAuthModeEnum::CASE))?
                                .subjects()?
                                .some()?
                                .non_null()?
                                .push(&me)?
                                .end()?
                                .targets()?
                                .some()?
                                .null()?
                                .auxiliary_type(None)?
                                .fabric_index(None)?
                                .end()?;
                            let acl = acl
                                .push()?
                                .privilege(Some(AccessControlEntryPrivilegeEnum::Operate))?
                                .auth_mode(Some(AccessControlEntryAuthModeEnum::CASE))?
                                .subjects()?
                                .some()?
                                .non_null()?
                                .push(&other)?
                                .end()?
                                .targets()?
                                .some()?
                                .null()?
                                .auxiliary_type(None)?
                                .fabric_index(None)?
                                .end()?;
                            acl.end()?.end()?.end()?.end()
                        })
                        .await?;
                    let resp = handle.response()?;
                    for status in resp.write_responses.iter() {
                        let status = status?;
                        if status.status.status != rs_matter::im::IMStatusCode::Success {
                            return Err(rs_matter::error::ErrorCode::Failure.into());
                        }
                    }
                    Ok(())
                }
                .await
            }
        };
        log_ev(
            &ctx.log,
            ctx.node,
            ctx.incarnation,
            FullKind::Step {
                name,
                result: Some(code(&r)),
            },
        );
        let _: NonZeroU8 = fab_idx;
        if r.is_err() && !ctx.continue_on_error {
            return r;
        }
    }
    Ok(())
}
