//! The "im world": a device whose node composition is generated per run and served by an
//! instrumented synthetic cluster handler behind the real Interaction Model (responder, chunked
//! reporting, subscriptions, timed interactions, access checks), and controllers which drive raw
//! exchanges with the harness's own TLV codec, so that every chunk the device emits is recorded
//! byte for byte. Sessions are planted. Serves C06, C13, C14.

use std::cell::{Cell, RefCell};
use std::collections::BTreeMap;
use std::num::NonZeroU8;
use std::rc::Rc;

use embassy_sync::blocking_mutex::raw::NoopRawMutex;
use embassy_sync::signal::Signal;
use embassy_time::{Duration, Timer};

use rs_matter::acl::{AclEntry, AuthMode, Target};
use rs_matter::crypto::{default_crypto, CanonAeadKeyRef, Crypto};
use rs_matter::dm::clusters::net_comm::DummyNetworks;
use rs_matter::dm::devices::test::{DAC_PRIVKEY, TEST_DEV_ATT, TEST_DEV_COMM, TEST_DEV_DET};
use rs_matter::dm::devices::DEV_TYPE_ON_OFF_LIGHT;
use rs_matter::dm::{
    endpoints, Access, AttrChangeNotifier, Attribute, Async, Cluster, Command, DataModel, Dataver,
    EmptyHandler, Endpoint, Event, EventEmitter, Handler, InvokeContext, InvokeReply, MatchContext, Matcher,
    Metadata, Node, NonBlockingHandler, Privilege, Quality, ReadContext, ReadReply, Reply, WriteContext,
};
use rs_matter::error::{Error, ErrorCode};
use rs_matter::im::{EventPriority, InteractionModel, InteractionModelState};
use rs_matter::respond::Responder;
use rs_matter::tlv::{TLVTag, TLVWrite};
use rs_matter::transport::exchange::{Exchange, MatterBuffers, MessageMeta};
use rs_matter::transport::session::{NocCatIds, ReservedSession, SessionMode};
use rs_matter::verif::{Snapshot, SubsSnapshot};
use rs_matter::{devices, root_endpoint, Matter};

use crate::kernel::{self, NodeShared, RootFut, SimTasks, TaskDef};
use crate::kv::SimKv;
use crate::net::{self, Net};
use crate::tape::{NodeRng, Rng};
use crate::tlvx::{self, arr, li, st, Val};
use crate::worlds::mrp::{Kind, Planted};

pub const PROTO_IM: u16 = 0x0001;
pub const OP_STATUS: u8 = 1;
pub const OP_READ: u8 = 2;
pub const OP_SUBSCRIBE: u8 = 3;
pub const OP_SUBSCRIBE_RESP: u8 = 4;
pub const OP_REPORT: u8 = 5;
pub const OP_WRITE: u8 = 6;
pub const OP_WRITE_RESP: u8 = 7;
pub const OP_INVOKE: u8 = 8;
pub const OP_INVOKE_RESP: u8 = 9;
pub const OP_TIMED: u8 = 10;

/// Synthetic clusters live in this id range
pub const SYNTH_BASE: u32 = 0xFFF1_FC00;

pub const ACC_RV: u16 = 0x0011;
pub const OK: u16 = 0xffff;

// ---------------------------------------------------------------------------------------------
// Composition
// ---------------------------------------------------------------------------------------------

#[derive(Clone, Debug, PartialEq, Eq)]
pub enum AKind {
    U32,
    Octets(usize),
    List { items: usize, item_len: usize },
}

#[derive(Clone, Debug)]
pub struct AttrSpec {
    pub id: u32,
    pub kind: AKind,
    /// `rs_matter::dm::Access` bits
    pub access: u16,
}

#[derive(Clone, Debug)]
pub struct CmdSpec {
    pub id: u32,
    pub access: u16,
    pub resp: bool,
}

#[derive(Clone, Debug)]
pub struct EvtSpec {
    pub id: u32,
    pub access: u16,
}

#[derive(Clone, Debug)]
pub struct ClusterSpec {
    pub id: u32,
    pub attrs: Vec<AttrSpec>,
    pub cmds: Vec<CmdSpec>,
    pub events: Vec<EvtSpec>,
}

#[derive(Clone, Debug)]
pub struct EndpointSpec {
    pub id: u16,
    pub clusters: Vec<ClusterSpec>,
}

#[derive(Clone, Debug)]
pub struct AclSpec {
    pub fab: u8,
    /// 1 = view, 3 = operate, 4 = manage, 5 = administer
    pub privilege: u8,
    pub subjects: Vec<u64>,
    pub targets: Vec<(Option<u16>, Option<u32>)>,
}

#[derive(Clone, Debug, Default)]
pub struct Composition {
    pub with_root: bool,
    pub endpoints: Vec<EndpointSpec>,
    pub acl: Vec<AclSpec>,
    /// Number of (dummy) fabrics on the device
    pub fabrics: u8,
}

impl Composition {
    pub fn cluster(&self, ep: u16, cl: u32) -> Option<&ClusterSpec> {
        self.endpoints
            .iter()
            .find(|e| e.id == ep)
            .and_then(|e| e.clusters.iter().find(|c| c.id == cl))
    }
}

/// The value of an octet-string attribute / list item: recognisable, carries the version
pub fn octets_value(ep: u16, cl: u32, attr: u32, version: u32, index: u16, len: usize) -> Vec<u8> {
    let mut v = Vec::with_capacity(len);
    v.extend_from_slice(&version.to_le_bytes());
    v.extend_from_slice(&index.to_le_bytes());
    let mut x = (ep as u32) ^ cl.rotate_left(7) ^ attr.rotate_left(13) ^ 0x5bd1_e995;
    while v.len() < len {
        x = x.wrapping_mul(1664525).wrapping_add(1013904223);
        v.push((x >> 24) as u8);
    }
    v.truncate(len);
    v
}

// ---------------------------------------------------------------------------------------------
// History
// ---------------------------------------------------------------------------------------------

#[derive(Clone, Debug, PartialEq, Eq)]
pub enum CallKind {
    Read,
    Write,
    Invoke,
}

#[derive(Clone, Debug)]
pub struct Call {
    pub kind: CallKind,
    pub ep: u16,
    pub cl: u32,
    pub leaf: u32,
    pub fab_idx: u8,
    /// Read: `None` = whole attribute, `Some(None)` = empty list, `Some(Some(i))` = item
    pub list_index: Option<Option<u16>>,
    /// Written value / command argument
    pub value: Option<u32>,
    pub result: u16,
}

#[derive(Clone, Debug)]
pub enum ImKind {
    OpStart { op: u16 },
    OpEnd { op: u16, result: u16 },
    /// A message received by a controller (`op` = 0xffff: by the report handler, `hseq` then
    /// numbers the handled exchange)
    Rx { op: u16, hseq: u32, sess: usize, opcode: u8, payload: Vec<u8> },
    Tx { op: u16, hseq: u32, opcode: u8, len: usize },
    /// The status response to a TimedRequest arrived
    TimedAck { op: u16 },
    /// Report handler behaviour applied to handled exchange `hseq`
    Behave { hseq: u32, what: &'static str },
    Call(Call),
    Change { ep: u16, cl: u32, attr: u32, version: u32 },
    Emit { ep: u16, cl: u32, event: u32, marker: u32, number: Option<u64> },
    Enabled { ep: u16, on: bool },
    AclRemoved { fab: u8, index: usize },
    DeviceUp,
    SessionReplanted { pair: usize, generation: u32 },
}

#[derive(Clone, Debug)]
pub struct ImEv {
    pub time: u64,
    pub local_time: u64,
    pub node: usize,
    pub incarnation: u32,
    pub kind: ImKind,
}

pub type ImLog = Rc<RefCell<Vec<ImEv>>>;

fn log_ev(log: &ImLog, node: usize, incarnation: u32, kind: ImKind) {
    let tag = match &kind {
        ImKind::OpStart { .. } => 1,
        ImKind::OpEnd { .. } => 2,
        ImKind::Rx { .. } => 3,
        ImKind::Tx { .. } => 4,
        ImKind::TimedAck { .. } => 5,
        ImKind::Behave { .. } => 6,
        ImKind::Call(_) => 7,
        ImKind::Change { .. } => 8,
        ImKind::Emit { .. } => 9,
        ImKind::Enabled { .. } => 10,
        ImKind::AclRemoved { .. } => 11,
        ImKind::DeviceUp => 12,
        ImKind::SessionReplanted { .. } => 13,
    };
    kernel::trace("im", node as u64, tag, &[]);
    log.borrow_mut().push(ImEv {
        time: kernel::now(),
        local_time: kernel::local_now(),
        node,
        incarnation,
        kind,
    });
}

pub fn code(r: &Result<(), Error>) -> u16 {
    match r {
        Ok(()) => OK,
        Err(e) => e.code() as u16,
    }
}

// ---------------------------------------------------------------------------------------------
// Device side
// ---------------------------------------------------------------------------------------------

pub struct DevState {
    /// Current version / written value per synthetic attribute
    pub values: BTreeMap<(u16, u32, u32), u32>,
    /// Per synthetic endpoint (index into `Composition::endpoints`)
    pub enabled: Vec<bool>,
    /// Number of non-global attribute reads served by the synthetic handler
    pub reads: u32,
    pub next_marker: u32,
}

#[derive(Clone, Debug)]
pub enum Trig {
    /// Device-local time since boot of the first incarnation
    AtMs(u32),
    AfterMs(u32),
    /// When the synthetic handler has served this many (non-global) attribute reads in total
    AfterReads(u32),
}

#[derive(Clone, Debug)]
pub enum DevOp {
    Change { ep: u16, cl: u32, attr: u32 },
    ChangeCluster { ep: u16, cl: u32 },
    ChangeEndpoint { ep: u16 },
    ChangeAll,
    Emit { ep: u16, cl: u32, event: u32, prio: u8 },
    SetEnabled { ep_index: usize, on: bool },
    AclRemove { fab: u8, index: usize },
    /// Drop the session of pair `pair` (eviction); the keeper re-establishes it
    EvictSession { pair: usize },
}

#[derive(Clone, Debug)]
pub struct DevStep {
    pub trig: Trig,
    pub ops: Vec<DevOp>,
}

/// A pair of planted sessions device <-> controller, re-planted (new ids and keys, standing for a
/// CASE re-establishment) when the device lost its side
#[derive(Clone, Debug)]
pub struct Pair {
    pub kind: Kind,
    pub ctl_node: usize,
    pub dev_fab: u8,
    pub ctl_nodeid: u64,
    pub dev_nodeid: u64,
}

pub struct SessDir {
    pub seed: u64,
    pub pairs: Vec<Pair>,
    pub generation: RefCell<Vec<u32>>,
    /// Every session pair ever planted (for the tap decoder)
    pub all: RefCell<Vec<(usize, u32, Planted)>>,
    pub replant: bool,
}

fn gen_key(tag: u64) -> [u8; 16] {
    let mut r = Rng::new(tag);
    let mut k = [0u8; 16];
    k[..8].copy_from_slice(&r.next_u64().to_le_bytes());
    k[8..].copy_from_slice(&r.next_u64().to_le_bytes());
    k
}

impl SessDir {
    pub fn planted(&self, pair: usize, generation: u32) -> Planted {
        let p = &self.pairs[pair];
        let g = generation as u64;
        let pl = Planted {
            kind: p.kind,
            a: 0,
            b: p.ctl_node,
            a_local_sid: (100 + pair as u16 * 500 + generation as u16 % 500),
            b_local_sid: (10_000 + pair as u16 * 500 + generation as u16 % 500),
            a_nodeid: p.dev_nodeid,
            b_nodeid: p.ctl_nodeid,
            key_ab: gen_key(self.seed ^ 0xA000 ^ ((pair as u64) << 20) ^ (g << 32)),
            key_ba: gen_key(self.seed ^ 0xB000 ^ ((pair as u64) << 20) ^ (g << 32)),
        };
        let mut all = self.all.borrow_mut();
        if !all.iter().any(|(p, g, _)| *p == pair && *g == generation) {
            all.push((pair, generation, pl.clone()));
        }
        pl
    }
}

pub fn plant_on(
    matter: &Matter<'_>,
    crypto: &impl Crypto,
    node: usize,
    p: &Planted,
    fab_idx: u8,
) -> Result<(), Error> {
    let (local_nodeid, peer_nodeid, local_sid, peer_sid, peer, enc, dec) = if p.a == node {
        (p.a_nodeid, p.b_nodeid, p.a_local_sid, p.b_local_sid, p.b, &p.key_ab, &p.key_ba)
    } else {
        (p.b_nodeid, p.a_nodeid, p.b_local_sid, p.a_local_sid, p.a, &p.key_ba, &p.key_ab)
    };
    let mut session = ReservedSession::reserve_now(matter, crypto)?;
    let (mode, ln, pn) = match p.kind {
        Kind::Case => (
            SessionMode::Case {
                fab_idx: NonZeroU8::new(fab_idx).unwrap(),
                cat_ids: NocCatIds::default(),
            },
            local_nodeid,
            peer_nodeid,
        ),
        Kind::Pase => (SessionMode::Pase { fab_idx: 0 }, 0, 0),
    };
    session.update(
        ln,
        pn,
        peer_sid,
        local_sid,
        net::node_addr(peer),
        mode,
        Some(CanonAeadKeyRef::new(dec)),
        Some(CanonAeadKeyRef::new(enc)),
        None,
        None,
    )?;
    session.complete();
    Ok(())
}

fn session_id_by_sid(matter: &Matter<'_>, sid: u16) -> Option<u32> {
    matter
        .verif_snapshot()
        .sessions
        .iter()
        .find(|s| s.local_sess_id == sid && !s.reserved)
        .map(|s| s.id)
}

/// Keeps the planted sessions of this node in step with the session directory
async fn keeper_task(
    matter: &Matter<'_>,
    crypto: &impl Crypto,
    node: usize,
    incarnation: u32,
    dir: &SessDir,
    my_gen: &RefCell<Vec<u32>>,
    log: &ImLog,
) {
    loop {
        Timer::after(Duration::from_millis(500)).await;
        for (i, pair) in dir.pairs.iter().enumerate() {
            if node != 0 && pair.ctl_node != node {
                continue;
            }
            let g_dir = dir.generation.borrow()[i];
            let g_mine = my_gen.borrow()[i];
            let fab = if node == 0 { pair.dev_fab } else { 1 };
            if g_mine < g_dir {
                // The peer moved on: forget the old session, plant the new one
                let old = dir.planted(i, g_mine);
                let sid = if node == 0 { old.a_local_sid } else { old.b_local_sid };
                if let Some(id) = session_id_by_sid(matter, sid) {
                    matter.verif_remove_session(id);
                }
                let new = dir.planted(i, g_dir);
                if plant_on(matter, crypto, node, &new, fab).is_ok() {
                    my_gen.borrow_mut()[i] = g_dir;
                }
            } else if node == 0 && dir.replant {
                let cur = dir.planted(i, g_mine);
                if session_id_by_sid(matter, cur.a_local_sid).is_none() {
                    let g = g_mine + 1;
                    let new = dir.planted(i, g);
                    if plant_on(matter, crypto, node, &new, fab).is_ok() {
                        dir.generation.borrow_mut()[i] = g;
                        my_gen.borrow_mut()[i] = g;
                        log_ev(log, node, incarnation, ImKind::SessionReplanted { pair: i, generation: g });
                    }
                }
            }
        }
    }
}

struct SynthMatcher;

impl Matcher for SynthMatcher {
    fn matches(&self, ctx: impl MatchContext) -> bool {
        match ctx.cluster() {
            Some(c) => c >= SYNTH_BASE,
            None => true,
        }
    }
}

/// Metadata whose synthetic endpoints can be switched on and off while the node runs
struct DynMeta<'a> {
    all: &'a [Endpoint<'a>],
    /// Index of the first synthetic endpoint in `all`
    first_synth: usize,
    state: &'a RefCell<DevState>,
}

impl Metadata for DynMeta<'_> {
    fn access<F, R>(&self, f: F) -> R
    where
        F: FnOnce(&Node<'_>) -> R,
    {
        let all_on = self.state.borrow().enabled.iter().all(|e| *e);
        if all_on {
            f(&Node { endpoints: self.all })
        } else {
            let enabled = self.state.borrow().enabled.clone();
            let eps: Vec<Endpoint<'_>> = self
                .all
                .iter()
                .enumerate()
                .filter(|(i, _)| *i < self.first_synth || enabled[*i - self.first_synth])
                .map(|(_, e)| e.clone())
                .collect();
            f(&Node { endpoints: &eps })
        }
    }
}

struct SynthHandler<'a> {
    node: usize,
    incarnation: u32,
    comp: &'a Composition,
    /// Metadata clusters of the synthetic endpoints (same order as `comp.endpoints`)
    meta: &'a [Vec<Cluster<'a>>],
    datavers: Vec<Vec<Dataver>>,
    state: &'a RefCell<DevState>,
    log: ImLog,
    read_signal: &'a Signal<NoopRawMutex, ()>,
}

impl SynthHandler<'_> {
    fn lookup(&self, ep: u16, cl: u32) -> Option<(usize, usize)> {
        let ei = self.comp.endpoints.iter().position(|e| e.id == ep)?;
        let ci = self.comp.endpoints[ei].clusters.iter().position(|c| c.id == cl)?;
        Some((ei, ci))
    }

    fn call(&self, c: Call) {
        log_ev(&self.log, self.node, self.incarnation, ImKind::Call(c));
    }
}

impl Handler for SynthHandler<'_> {
    fn read(&self, ctx: impl ReadContext, reply: impl ReadReply) -> Result<(), Error> {
        let attr = ctx.attr();
        let Some((ei, ci)) = self.lookup(attr.endpoint_id, attr.cluster_id) else {
            return Err(ErrorCode::ClusterNotFound.into());
        };
        let list_index = attr.list_index.clone().map(|li| li.into_option());
        let r = (|| {
            let Some(mut writer) = reply.with_dataver(self.datavers[ei][ci].get())? else {
                return Ok(());
            };
            if attr.is_system() {
                return self.meta[ei][ci].read(attr, writer);
            }
            let spec = self.comp.endpoints[ei].clusters[ci]
                .attrs
                .iter()
                .find(|a| a.id == attr.attr_id)
                .ok_or(ErrorCode::AttributeNotFound)?;
            let version = {
                let mut st = self.state.borrow_mut();
                st.reads += 1;
                *st.values
                    .get(&(attr.endpoint_id, attr.cluster_id, attr.attr_id))
                    .unwrap_or(&0)
            };
            self.read_signal.signal(());
            match &spec.kind {
                AKind::U32 => writer.set(version),
                AKind::Octets(len) => {
                    let bytes = octets_value(attr.endpoint_id, attr.cluster_id, attr.attr_id, version, 0, *len);
                    let tag = writer.tag();
                    writer.writer().str(tag, &bytes)?;
                    writer.complete()
                }
                AKind::List { items, item_len } => {
                    let tag = writer.tag();
                    match list_index {
                        None => {
                            let mut tw = writer.writer();
                            tw.start_array(tag)?;
                            for i in 0..*items {
                                let bytes = octets_value(
                                    attr.endpoint_id,
                                    attr.cluster_id,
                                    attr.attr_id,
                                    version,
                                    i as u16,
                                    *item_len,
                                );
                                tw.str(&TLVTag::Anonymous, &bytes)?;
                            }
                            tw.end_container()?;
                        }
                        Some(None) => {
                            let mut tw = writer.writer();
                            tw.start_array(tag)?;
                            tw.end_container()?;
                        }
                        Some(Some(i)) => {
                            if i as usize >= *items {
                                return Err(ErrorCode::ConstraintError.into());
                            }
                            let bytes = octets_value(
                                attr.endpoint_id,
                                attr.cluster_id,
                                attr.attr_id,
                                version,
                                i,
                                *item_len,
                            );
                            writer.writer().str(tag, &bytes)?;
                        }
                    }
                    writer.complete()
                }
            }
        })();
        if !attr.is_system() {
            self.call(Call {
                kind: CallKind::Read,
                ep: attr.endpoint_id,
                cl: attr.cluster_id,
                leaf: attr.attr_id,
                fab_idx: attr.fab_idx,
                list_index,
                value: None,
                result: code(&r),
            });
        }
        r
    }

    fn write(&self, ctx: impl WriteContext) -> Result<(), Error> {
        let attr = ctx.attr();
        let Some((ei, ci)) = self.lookup(attr.endpoint_id, attr.cluster_id) else {
            return Err(ErrorCode::ClusterNotFound.into());
        };
        let mut value = ctx.data().u32().ok();
        let r = (|| {
            attr.check_dataver(self.datavers[ei][ci].get())?;
            let spec = self.comp.endpoints[ei].clusters[ci]
                .attrs
                .iter()
                .find(|a| a.id == attr.attr_id)
                .ok_or(ErrorCode::AttributeNotFound)?;
            if spec.kind != AKind::U32 {
                return Err(ErrorCode::InvalidDataType.into());
            }
            let v = ctx.data().u32()?;
            self.state
                .borrow_mut()
                .values
                .insert((attr.endpoint_id, attr.cluster_id, attr.attr_id), v);
            ctx.notify_changed();
            Ok(())
        })();
        self.call(Call {
            kind: CallKind::Write,
            ep: attr.endpoint_id,
            cl: attr.cluster_id,
            leaf: attr.attr_id,
            fab_idx: attr.fab_idx,
            list_index: attr.list_index.clone().map(|li| li.into_option()),
            value,
            result: code(&r),
        });
        r
    }

    fn invoke(&self, ctx: impl InvokeContext, reply: impl InvokeReply) -> Result<(), Error> {
        let cmd = ctx.cmd();
        let Some((ei, ci)) = self.lookup(cmd.endpoint_id, cmd.cluster_id) else {
            return Err(ErrorCode::ClusterNotFound.into());
        };
        let mut value = None;
        let r = (|| {
            let spec = self.comp.endpoints[ei].clusters[ci]
                .cmds
                .iter()
                .find(|c| c.id == cmd.cmd_id)
                .ok_or(ErrorCode::CommandNotFound)?;
            let arg = ctx.data().structure()?.ctx(0)?.u32()?;
            value = Some(arg);
            if spec.resp {
                let mut writer = reply.with_command(spec.id + 0x100)?;
                let tag = writer.tag();
                {
                    let mut tw = writer.writer();
                    tw.start_struct(tag)?;
                    tw.u32(&TLVTag::Context(0), arg)?;
                    tw.end_container()?;
                }
                writer.complete()
            } else {
                Ok(())
            }
        })();
        self.call(Call {
            kind: CallKind::Invoke,
            ep: cmd.endpoint_id,
            cl: cmd.cluster_id,
            leaf: cmd.cmd_id,
            fab_idx: cmd.fab_idx,
            list_index: None,
            value,
            result: code(&r),
        });
        r
    }

    fn bump_dataver(&self, ctx: impl MatchContext) {
        for (ei, e) in self.comp.endpoints.iter().enumerate() {
            if ctx.endpt().map(|x| x == e.id).unwrap_or(true) {
                for (ci, c) in e.clusters.iter().enumerate() {
                    if ctx.cluster().map(|x| x == c.id).unwrap_or(true) {
                        self.datavers[ei][ci].changed();
                    }
                }
            }
        }
    }
}

impl NonBlockingHandler for SynthHandler<'_> {}

pub struct DeviceCtx {
    pub node: usize,
    pub incarnation: u32,
    pub seed: u64,
    pub net: Net,
    pub wake: std::sync::Arc<kernel::NodeWake>,
    pub comp: Rc<Composition>,
    pub dir: Rc<SessDir>,
    pub script: Vec<DevStep>,
    /// Steps already executed by earlier incarnations
    pub script_pos: Rc<Cell<usize>>,
    pub n_handlers: usize,
    pub log: ImLog,
    pub snap: Rc<RefCell<Option<Snapshot>>>,
    pub subs: Rc<RefCell<Option<SubsSnapshot>>>,
    pub state: Rc<RefCell<DevState>>,
    pub kv: SimKv,
    pub suppress_startup_event: bool,
    pub script_done: Rc<Cell<bool>>,
}

fn access(bits: u16) -> Access {
    Access::from_bits_truncate(bits)
}

async fn changer_task<D>(
    ctx: &DeviceCtx,
    matter: &Matter<'_>,
    dm: &D,
    read_signal: &Signal<NoopRawMutex, ()>,
) where
    D: AttrChangeNotifier + EventEmitter,
{
    let bump = |ep: u16, cl: u32, attr: u32| {
        let mut st = ctx.state.borrow_mut();
        let v = st.values.entry((ep, cl, attr)).or_insert(0);
        // Written values have the top bit set; versions continue below it
        *v = (*v & 0x7fff_ffff) + 1;
        let version = *v;
        drop(st);
        log_ev(&ctx.log, ctx.node, ctx.incarnation, ImKind::Change { ep, cl, attr, version });
    };
    while ctx.script_pos.get() < ctx.script.len() {
        let step = &ctx.script[ctx.script_pos.get()];
        match step.trig {
            Trig::AtMs(ms) => {
                let target = ms as u64 * 1000;
                let now = kernel::local_now();
                if target > now {
                    Timer::after(Duration::from_micros(target - now)).await;
                }
            }
            Trig::AfterMs(ms) => Timer::after(Duration::from_millis(ms as u64)).await,
            Trig::AfterReads(n) => {
                while ctx.state.borrow().reads < n {
                    read_signal.wait().await;
                }
            }
        }
        ctx.script_pos.set(ctx.script_pos.get() + 1);
        for op in &step.ops {
            match op {
                DevOp::Change { ep, cl, attr } => {
                    bump(*ep, *cl, *attr);
                    dm.notify_attr_changed(*ep, *cl, *attr);
                }
                DevOp::ChangeCluster { ep, cl } => {
                    if let Some(c) = ctx.comp.cluster(*ep, *cl) {
                        for a in &c.attrs {
                            bump(*ep, *cl, a.id);
                        }
                    }
                    dm.notify_cluster_changed(*ep, *cl);
                }
                DevOp::ChangeEndpoint { ep } => {
                    for e in ctx.comp.endpoints.iter().filter(|e| e.id == *ep) {
                        for c in &e.clusters {
                            for a in &c.attrs {
                                bump(e.id, c.id, a.id);
                            }
                        }
                    }
                    dm.notify_endpoint_changed(*ep);
                }
                DevOp::ChangeAll => {
                    for e in &ctx.comp.endpoints {
                        for c in &e.clusters {
                            for a in &c.attrs {
                                bump(e.id, c.id, a.id);
                            }
                        }
                    }
                    dm.notify_all_changed();
                }
                DevOp::Emit { ep, cl, event, prio } => {
                    let marker = {
                        let mut st = ctx.state.borrow_mut();
                        st.next_marker += 1;
                        st.next_marker
                    };
                    let prio = match prio {
                        0 => EventPriority::Debug,
                        1 => EventPriority::Info,
                        _ => EventPriority::Critical,
                    };
                    let r = dm.emit_event(*ep, *cl, *event, prio, |mut tw| {
                        tw.start_struct(&TLVTag::Context(7))?;
                        tw.u32(&TLVTag::Context(0), marker)?;
                        tw.end_container()
                    });
                    log_ev(
                        &ctx.log,
                        ctx.node,
                        ctx.incarnation,
                        ImKind::Emit { ep: *ep, cl: *cl, event: *event, marker, number: r.ok() },
                    );
                }
                DevOp::SetEnabled { ep_index, on } => {
                    let ep = ctx.comp.endpoints[*ep_index].id;
                    ctx.state.borrow_mut().enabled[*ep_index] = *on;
                    log_ev(&ctx.log, ctx.node, ctx.incarnation, ImKind::Enabled { ep, on: *on });
                    dm.notify_endpoint_changed(ep);
                }
                DevOp::AclRemove { fab, index } => {
                    let done = matter.with_state(|s| {
                        s.fabrics
                            .fabric_mut(NonZeroU8::new(*fab).unwrap())
                            .ok()
                            .map(|f| f.acl_remove(*index).is_ok())
                            .unwrap_or(false)
                    });
                    if done {
                        log_ev(&ctx.log, ctx.node, ctx.incarnation, ImKind::AclRemoved { fab: *fab, index: *index });
                    }
                }
                DevOp::EvictSession { pair } => {
                    let g = ctx.dir.generation.borrow()[*pair];
                    let pl = ctx.dir.planted(*pair, g);
                    if let Some(id) = session_id_by_sid(matter, pl.a_local_sid) {
                        matter.verif_remove_session(id);
                    }
                }
            }
        }
    }
    ctx.script_done.set(true);
}

#[allow(clippy::too_many_arguments)]
async fn device_body<T: DataModel>(
    ctx: &DeviceCtx,
    shared: Rc<NodeShared>,
    matter: &Matter<'_>,
    crypto: &impl Crypto,
    handler: T,
    read_signal: &Signal<NoopRawMutex, ()>,
) {
    let buffers: MatterBuffers = MatterBuffers::new();
    let state: InteractionModelState<DummyNetworks, 3, 4096> = InteractionModelState::new(DummyNetworks);
    if ctx.suppress_startup_event {
        state.suppress_start_up_event();
    }
    ctx.kv.new_incarnation(ctx.incarnation);
    let kv = matter.kv(ctx.kv.clone());

    let dm = InteractionModel::new(matter, crypto, &buffers, handler, &kv, &state);
    if ctx.incarnation > 1 {
        let _ = dm.startup().await;
    }
    log_ev(&ctx.log, ctx.node, ctx.incarnation, ImKind::DeviceUp);

    let responder = Responder::new_default(&dm);
    let busy = Responder::new_busy(matter, 500);
    let my_gen = RefCell::new(ctx.dir.generation.borrow().clone());

    let mut tasks: Vec<TaskDef<'_>> = Vec::new();
    {
        let net = ctx.net.clone();
        let wake = ctx.wake.clone();
        let node = ctx.node;
        let inc = ctx.incarnation;
        tasks.push(TaskDef::restartable("transport", move || {
            let (send, recv, mc) = net.attach(node, wake.clone(), inc);
            Box::pin(async move {
                let _ = matter.run(crypto, send, recv, mc).await;
            })
        }));
    }
    for i in 0..ctx.n_handlers {
        let responder = &responder;
        tasks.push(TaskDef::restartable("handler", move || {
            Box::pin(async move {
                let _ = responder.handle(i).await;
            })
        }));
    }
    {
        let busy = &busy;
        tasks.push(TaskDef::restartable("busy", move || {
            Box::pin(async move {
                let _ = busy.handle(0).await;
            })
        }));
    }
    {
        let dm = &dm;
        tasks.push(TaskDef::restartable("im", move || {
            Box::pin(async move {
                let _ = dm.run().await;
            })
        }));
    }
    tasks.push(TaskDef::once("changer", changer_task(ctx, matter, &dm, read_signal)));
    tasks.push(TaskDef::once(
        "keeper",
        keeper_task(matter, crypto, ctx.node, ctx.incarnation, &ctx.dir, &my_gen, &ctx.log),
    ));

    let snap = ctx.snap.clone();
    let subs = ctx.subs.clone();
    let state_ref = &state;
    SimTasks::new(shared, tasks)
        .with_probe(move || {
            *snap.borrow_mut() = Some(matter.verif_snapshot());
            *subs.borrow_mut() = Some(state_ref.verif_subscriptions());
        })
        .await
}

pub fn device_root(ctx: DeviceCtx, shared: Rc<NodeShared>) -> RootFut {
    Box::pin(async move {
        let matter = Matter::new(&TEST_DEV_DET, TEST_DEV_COMM, &TEST_DEV_ATT, net::PORT);
        let rng = NodeRng(Rng::new(
            ctx.seed ^ ((ctx.node as u64) << 48) ^ ((ctx.incarnation as u64) << 32) ^ 0x1D0,
        ));
        let crypto = default_crypto(rng, DAC_PRIVKEY);
        let rand = crypto.rand().unwrap();

        // Fabrics and ACL
        matter.with_state(|state| {
            for _ in 0..ctx.comp.fabrics {
                state.fabrics.add_with_post_init(|_| Ok(())).unwrap();
            }
            for a in &ctx.comp.acl {
                let privilege = match a.privilege {
                    1 => Privilege::VIEW,
                    3 => Privilege::OPERATE,
                    4 => Privilege::MANAGE,
                    _ => Privilege::ADMIN,
                };
                let mut e = AclEntry::new(None, privilege, AuthMode::Case);
                for s in &a.subjects {
                    e.add_subject(*s).unwrap();
                }
                for (ep, cl) in &a.targets {
                    e.add_target(Target::new(*ep, *cl, None)).unwrap();
                }
                state
                    .fabrics
                    .fabric_mut(NonZeroU8::new(a.fab).unwrap())
                    .unwrap()
                    .acl_add(e)
                    .unwrap();
            }
        });
        for (i, _) in ctx.dir.pairs.iter().enumerate() {
            let g = ctx.dir.generation.borrow()[i];
            let g = if ctx.incarnation > 1 {
                // A restarted device has lost its sessions: new generation
                ctx.dir.generation.borrow_mut()[i] = g + 1;
                g + 1
            } else {
                g
            };
            let pl = ctx.dir.planted(i, g);
            plant_on(&matter, &crypto, ctx.node, &pl, ctx.dir.pairs[i].dev_fab).expect("plant");
        }

        // Metadata storage
        let mut attr_store: Vec<Vec<Vec<Attribute>>> = Vec::new();
        let mut cmd_store: Vec<Vec<Vec<Command>>> = Vec::new();
        let mut evt_store: Vec<Vec<Vec<Event>>> = Vec::new();
        for e in &ctx.comp.endpoints {
            let mut ea = Vec::new();
            let mut ec = Vec::new();
            let mut ee = Vec::new();
            for c in &e.clusters {
                let mut attrs: Vec<Attribute> = c
                    .attrs
                    .iter()
                    .map(|a| {
                        Attribute::new(
                            a.id,
                            access(a.access),
                            if matches!(a.kind, AKind::List { .. }) {
                                Quality::A
                            } else {
                                Quality::NONE
                            },
                        )
                    })
                    .collect();
                attrs.extend_from_slice(&[
                    rs_matter::dm::GENERATED_COMMAND_LIST,
                    rs_matter::dm::ACCEPTED_COMMAND_LIST,
                    rs_matter::dm::EVENT_LIST,
                    rs_matter::dm::ATTRIBUTE_LIST,
                    rs_matter::dm::FEATURE_MAP,
                    rs_matter::dm::CLUSTER_REVISION,
                ]);
                ea.push(attrs);
                ec.push(
                    c.cmds
                        .iter()
                        .map(|k| Command::new(k.id, if k.resp { Some(k.id + 0x100) } else { None }, access(k.access)))
                        .collect::<Vec<_>>(),
                );
                ee.push(c.events.iter().map(|k| Event::new(k.id, access(k.access))).collect::<Vec<_>>());
            }
            attr_store.push(ea);
            cmd_store.push(ec);
            evt_store.push(ee);
        }
        let mut cluster_store: Vec<Vec<Cluster<'_>>> = Vec::new();
        for (ei, e) in ctx.comp.endpoints.iter().enumerate() {
            let mut v = Vec::new();
            for (ci, c) in e.clusters.iter().enumerate() {
                v.push(Cluster {
                    id: c.id,
                    revision: 1,
                    feature_map: 0,
                    attributes: &attr_store[ei][ci],
                    commands: &cmd_store[ei][ci],
                    events: &evt_store[ei][ci],
                    with_attrs: |_, _, _| true,
                    with_cmds: |_, _, _| true,
                    with_events: |_, _, _| true,
                });
            }
            cluster_store.push(v);
        }
        let root = root_endpoint!(eth);
        let mut all: Vec<Endpoint<'_>> = Vec::new();
        if ctx.comp.with_root {
            all.push(root);
        }
        let first_synth = all.len();
        for (ei, e) in ctx.comp.endpoints.iter().enumerate() {
            all.push(Endpoint::new(e.id, devices!(DEV_TYPE_ON_OFF_LIGHT), &cluster_store[ei]));
        }

        let read_signal: Signal<NoopRawMutex, ()> = Signal::new();
        let synth = SynthHandler {
            node: ctx.node,
            incarnation: ctx.incarnation,
            comp: &ctx.comp,
            meta: &cluster_store,
            datavers: ctx
                .comp
                .endpoints
                .iter()
                .enumerate()
                .map(|(ei, e)| {
                    e.clusters
                        .iter()
                        .enumerate()
                        .map(|(ci, _)| Dataver::new(0x1000 * (ei as u32 + 1) + 0x100 * ci as u32 + ctx.incarnation))
                        .collect()
                })
                .collect(),
            state: &ctx.state,
            log: ctx.log.clone(),
            read_signal: &read_signal,
        };
        let meta = DynMeta {
            all: &all,
            first_synth,
            state: &ctx.state,
        };

        if ctx.comp.with_root {
            let handler = endpoints::EthSysHandlerBuilder::new()
                .build(rand)
                .chain(SynthMatcher, Async(synth));
            device_body(&ctx, shared, &matter, &crypto, (meta, handler), &read_signal).await
        } else {
            let handler = EmptyHandler.chain(SynthMatcher, Async(synth));
            device_body(&ctx, shared, &matter, &crypto, (meta, handler), &read_signal).await
        }
    })
}

// ---------------------------------------------------------------------------------------------
// Controller side
// ---------------------------------------------------------------------------------------------

#[derive(Clone, Debug, PartialEq, Eq, PartialOrd, Ord)]
pub struct PathSpec {
    pub ep: Option<u16>,
    pub cl: Option<u32>,
    pub leaf: Option<u32>,
}

impl PathSpec {
    pub fn is_wildcard(&self) -> bool {
        self.ep.is_none() || self.cl.is_none() || self.leaf.is_none()
    }

    pub fn matches(&self, ep: u16, cl: u32, leaf: u32) -> bool {
        self.ep.map(|x| x == ep).unwrap_or(true)
            && self.cl.map(|x| x == cl).unwrap_or(true)
            && self.leaf.map(|x| x == leaf).unwrap_or(true)
    }

    /// AttributePathIB / EventPathIB / CommandPathIB share the tag layout below
    fn attr_path(&self) -> Val {
        let mut m = Vec::new();
        if let Some(e) = self.ep {
            m.push((2, Val::UInt(e as u64)));
        }
        if let Some(c) = self.cl {
            m.push((3, Val::UInt(c as u64)));
        }
        if let Some(a) = self.leaf {
            m.push((4, Val::UInt(a as u64)));
        }
        li(m)
    }

    fn event_path(&self) -> Val {
        let mut m = Vec::new();
        if let Some(e) = self.ep {
            m.push((1, Val::UInt(e as u64)));
        }
        if let Some(c) = self.cl {
            m.push((2, Val::UInt(c as u64)));
        }
        if let Some(a) = self.leaf {
            m.push((3, Val::UInt(a as u64)));
        }
        li(m)
    }

    fn cmd_path(&self) -> Val {
        let mut m = Vec::new();
        if let Some(e) = self.ep {
            m.push((0, Val::UInt(e as u64)));
        }
        if let Some(c) = self.cl {
            m.push((1, Val::UInt(c as u64)));
        }
        if let Some(a) = self.leaf {
            m.push((2, Val::UInt(a as u64)));
        }
        li(m)
    }
}

#[derive(Clone, Debug)]
pub struct TimedSpec {
    pub timeout_ms: u16,
    /// Pause between the TimedRequest's status response and the action
    pub delay_ms: u32,
}

#[derive(Clone, Debug)]
pub enum CtlOp {
    Read {
        attrs: Vec<PathSpec>,
        events: Vec<PathSpec>,
        fabric_filtered: bool,
        /// (endpoint, cluster, data version)
        dv_filters: Vec<(u16, u32, u32)>,
        event_min: Option<u64>,
    },
    Subscribe {
        attrs: Vec<PathSpec>,
        events: Vec<PathSpec>,
        min_s: u16,
        max_s: u16,
        keep: bool,
        fabric_filtered: bool,
    },
    Write {
        timed: Option<TimedSpec>,
        flag_timed: bool,
        items: Vec<(PathSpec, u32)>,
        /// The write is sent in two chunks (MoreChunkedMessages on the first one)
        second: Option<SecondChunk>,
    },
    Invoke {
        timed: Option<TimedSpec>,
        flag_timed: bool,
        items: Vec<(PathSpec, u32)>,
    },
    Sleep { ms: u32 },
    /// Sleep until the run's calm flag is set, then `ms` more
    WaitCalm { ms: u32 },
}

#[derive(Clone, Debug)]
pub struct CtlStep {
    pub op_id: u16,
    /// Index into the session pairs of the run
    pub pair: usize,
    pub op: CtlOp,
    /// Delay before each StatusResponse the client owes (ms)
    pub status_delay_ms: u32,
    /// Abort the interaction after this many received chunks by answering with a failure status
    pub fail_after_chunks: Option<u32>,
}

#[derive(Clone, Debug, PartialEq, Eq)]
pub enum RepB {
    Normal,
    DelayMs(u32),
    /// Answer with this IM status instead of success
    Fail(u8),
    /// Never answer (hold the exchange for the given time, then drop it)
    SilentMs(u32),
    /// Answer with something which is not a status response
    Garbage,
    /// Answers correctly after a short think time (at most 80 ms: not a fault)
    Ponder(u32),
}

pub struct ControllerCtx {
    pub node: usize,
    pub incarnation: u32,
    pub seed: u64,
    pub net: Net,
    pub wake: std::sync::Arc<kernel::NodeWake>,
    pub dir: Rc<SessDir>,
    /// Task lists
    pub scripts: Vec<Vec<CtlStep>>,
    /// Behaviour of the report handler for the n-th handled report exchange
    pub report_behaviour: Vec<RepB>,
    pub n_report_handlers: usize,
    pub log: ImLog,
    pub snap: Rc<RefCell<Option<Snapshot>>>,
    pub active: Rc<Cell<u32>>,
    pub calm: Rc<Cell<bool>>,
    pub hseq: Rc<Cell<u32>>,
}

struct Ctl<'a> {
    node: usize,
    incarnation: u32,
    log: &'a ImLog,
}

impl Ctl<'_> {
    fn ev(&self, kind: ImKind) {
        log_ev(self.log, self.node, self.incarnation, kind);
    }
}

async fn send_im(c: &Ctl<'_>, ex: &mut Exchange<'_>, op: u16, hseq: u32, opcode: u8, payload: &[u8]) -> Result<(), Error> {
    c.ev(ImKind::Tx { op, hseq, opcode, len: payload.len() });
    ex.send(MessageMeta::new(PROTO_IM, opcode, true), payload).await
}

async fn recv_im(c: &Ctl<'_>, ex: &mut Exchange<'_>, op: u16, hseq: u32, sess: usize) -> Result<(u8, Vec<u8>), Error> {
    let rx = ex.recv().await?;
    let meta = rx.meta();
    let payload = rx.payload().to_vec();
    drop(rx);
    c.ev(ImKind::Rx { op, hseq, sess, opcode: meta.proto_opcode, payload: payload.clone() });
    Ok((meta.proto_opcode, payload))
}

pub fn status_msg(status: u8) -> Vec<u8> {
    tlvx::to_bytes(&st(vec![(0, Val::UInt(status as u64)), (0xff, Val::UInt(12))]))
}

fn report_flags(payload: &[u8]) -> (bool, bool) {
    match tlvx::decode(payload) {
        Ok((_, v)) => (
            v.ctx(3).and_then(|x| x.boolean()).unwrap_or(false),
            v.ctx(4).and_then(|x| x.boolean()).unwrap_or(false),
        ),
        Err(_) => (false, true),
    }
}

/// Receive the chunks of a report; returns the opcode/payload of the first non-report message if
/// one arrived instead
async fn recv_report_chunks(
    c: &Ctl<'_>,
    ex: &mut Exchange<'_>,
    step: &CtlStep,
    always_status: bool,
) -> Result<Option<(u8, Vec<u8>)>, Error> {
    let mut chunks = 0;
    loop {
        let (opc, pl) = recv_im(c, ex, step.op_id, 0, step.pair).await?;
        if opc != OP_REPORT {
            return Ok(Some((opc, pl)));
        }
        chunks += 1;
        let (more, suppress) = report_flags(&pl);
        if step.fail_after_chunks == Some(chunks) {
            send_im(c, ex, step.op_id, 0, OP_STATUS, &status_msg(0x01)).await?;
            return Err(ErrorCode::Invalid.into());
        }
        if more || always_status || !suppress {
            if step.status_delay_ms > 0 {
                Timer::after(Duration::from_millis(step.status_delay_ms as u64)).await;
            }
            send_im(c, ex, step.op_id, 0, OP_STATUS, &status_msg(0)).await?;
        } else {
            ex.acknowledge().await?;
        }
        if !more {
            return Ok(None);
        }
    }
}

fn paths_val(paths: &[PathSpec], event: bool) -> Val {
    arr(paths
        .iter()
        .map(|p| if event { p.event_path() } else { p.attr_path() })
        .collect())
}

pub fn read_request(
    attrs: &[PathSpec],
    events: &[PathSpec],
    fabric_filtered: bool,
    dv_filters: &[(u16, u32, u32)],
    event_min: Option<u64>,
) -> Vec<u8> {
    let mut m = Vec::new();
    if !attrs.is_empty() {
        m.push((0, paths_val(attrs, false)));
    }
    if !events.is_empty() {
        m.push((1, paths_val(events, true)));
    }
    if let Some(min) = event_min {
        m.push((2, arr(vec![st(vec![(1, Val::UInt(min))])])));
    }
    m.push((3, Val::Bool(fabric_filtered)));
    if !dv_filters.is_empty() {
        m.push((
            4,
            arr(dv_filters
                .iter()
                .map(|(ep, cl, dv)| {
                    st(vec![
                        (0, li(vec![(1, Val::UInt(*ep as u64)), (2, Val::UInt(*cl as u64))])),
                        (1, Val::UInt(*dv as u64)),
                    ])
                })
                .collect()),
        ));
    }
    m.push((0xff, Val::UInt(12)));
    tlvx::to_bytes(&st(m))
}

pub fn subscribe_request(
    attrs: &[PathSpec],
    events: &[PathSpec],
    min_s: u16,
    max_s: u16,
    keep: bool,
    fabric_filtered: bool,
) -> Vec<u8> {
    let mut m = vec![
        (0, Val::Bool(keep)),
        (1, Val::UInt(min_s as u64)),
        (2, Val::UInt(max_s as u64)),
    ];
    if !attrs.is_empty() {
        m.push((3, paths_val(attrs, false)));
    }
    if !events.is_empty() {
        m.push((4, paths_val(events, true)));
    }
    m.push((7, Val::Bool(fabric_filtered)));
    m.push((0xff, Val::UInt(12)));
    tlvx::to_bytes(&st(m))
}

/// Second chunk of a write: the items from index `at` on, sent `delay_ms` after the answer to the
/// first chunk, with its own TimedRequest flag
#[derive(Clone, Debug, PartialEq, Eq)]
pub struct SecondChunk {
    pub at: usize,
    pub delay_ms: u32,
    pub flag_timed: bool,
}

pub fn write_request(flag_timed: bool, items: &[(PathSpec, u32)], more: bool) -> Vec<u8> {
    let mut fields = vec![
        (0, Val::Bool(false)),
        (1, Val::Bool(flag_timed)),
        (
            2,
            arr(items
                .iter()
                .map(|(p, v)| st(vec![(1, p.attr_path()), (2, Val::UInt(*v as u64))]))
                .collect()),
        ),
    ];
    if more {
        fields.push((3, Val::Bool(true)));
    }
    fields.push((0xff, Val::UInt(12)));
    tlvx::to_bytes(&st(fields))
}

pub fn invoke_request(flag_timed: bool, items: &[(PathSpec, u32)]) -> Vec<u8> {
    let multi = items.len() > 1;
    tlvx::to_bytes(&st(vec![
        (0, Val::Bool(false)),
        (1, Val::Bool(flag_timed)),
        (
            2,
            arr(items
                .iter()
                .enumerate()
                .map(|(i, (p, v))| {
                    let mut m = vec![(0, p.cmd_path()), (1, st(vec![(0, Val::UInt(*v as u64))]))];
                    if multi {
                        m.push((2, Val::UInt(i as u64)));
                    }
                    st(m)
                })
                .collect()),
        ),
        (0xff, Val::UInt(12)),
    ]))
}

async fn timed_prelude(c: &Ctl<'_>, ex: &mut Exchange<'_>, step: &CtlStep, timed: &Option<TimedSpec>) -> Result<(), Error> {
    if let Some(t) = timed {
        let req = tlvx::to_bytes(&st(vec![(0, Val::UInt(t.timeout_ms as u64)), (0xff, Val::UInt(12))]));
        send_im(c, ex, step.op_id, 0, OP_TIMED, &req).await?;
        let (opc, pl) = recv_im(c, ex, step.op_id, 0, step.pair).await?;
        let status = tlvx::decode(&pl).ok().and_then(|(_, v)| v.ctx(0).and_then(|x| x.uint()));
        if opc != OP_STATUS || status != Some(0) {
            // Refused (e.g. by the busy responder): no timed window was opened
            return Err(ErrorCode::Busy.into());
        }
        c.ev(ImKind::TimedAck { op: step.op_id });
        if t.delay_ms > 0 {
            Timer::after(Duration::from_millis(t.delay_ms as u64)).await;
        }
    }
    Ok(())
}

async fn run_op(c: &Ctl<'_>, ex: &mut Exchange<'_>, step: &CtlStep) -> Result<(), Error> {
    match &step.op {
        CtlOp::Read { attrs, events, fabric_filtered, dv_filters, event_min } => {
            let req = read_request(attrs, events, *fabric_filtered, dv_filters, *event_min);
            send_im(c, ex, step.op_id, 0, OP_READ, &req).await?;
            if recv_report_chunks(c, ex, step, false).await?.is_some() {
                // A status response instead of data: busy, or the request was refused as a whole
                return Err(ErrorCode::Busy.into());
            }
            Ok(())
        }
        CtlOp::Subscribe { attrs, events, min_s, max_s, keep, fabric_filtered } => {
            let req = subscribe_request(attrs, events, *min_s, *max_s, *keep, *fabric_filtered);
            send_im(c, ex, step.op_id, 0, OP_SUBSCRIBE, &req).await?;
            if recv_report_chunks(c, ex, step, true).await?.is_some() {
                // A status response instead of the priming report: refused
                return Err(ErrorCode::Invalid.into());
            }
            let (opc, _) = recv_im(c, ex, step.op_id, 0, step.pair).await?;
            if opc != OP_SUBSCRIBE_RESP {
                return Err(ErrorCode::Invalid.into());
            }
            ex.acknowledge().await
        }
        CtlOp::Write { timed, flag_timed, items, second } => {
            timed_prelude(c, ex, step, timed).await?;
            match second {
                None => {
                    send_im(c, ex, step.op_id, 0, OP_WRITE, &write_request(*flag_timed, items, false)).await?;
                    recv_im(c, ex, step.op_id, 0, step.pair).await?;
                }
                Some(sc) => {
                    let at = sc.at.min(items.len());
                    send_im(c, ex, step.op_id, 0, OP_WRITE, &write_request(*flag_timed, &items[..at], true)).await?;
                    let (opc, _) = recv_im(c, ex, step.op_id, 0, step.pair).await?;
                    if opc == OP_WRITE_RESP {
                        if sc.delay_ms > 0 {
                            Timer::after(Duration::from_millis(sc.delay_ms as u64)).await;
                        }
                        send_im(c, ex, step.op_id, 1, OP_WRITE, &write_request(sc.flag_timed, &items[at..], false)).await?;
                        recv_im(c, ex, step.op_id, 1, step.pair).await?;
                    }
                }
            }
            ex.acknowledge().await
        }
        CtlOp::Invoke { timed, flag_timed, items } => {
            timed_prelude(c, ex, step, timed).await?;
            send_im(c, ex, step.op_id, 0, OP_INVOKE, &invoke_request(*flag_timed, items)).await?;
            recv_im(c, ex, step.op_id, 0, step.pair).await?;
            ex.acknowledge().await
        }
        CtlOp::Sleep { .. } | CtlOp::WaitCalm { .. } => Ok(()),
    }
}

async fn script_task(
    c: &Ctl<'_>,
    matter: &Matter<'_>,
    crypto: &impl Crypto,
    dir: &SessDir,
    my_gen: &RefCell<Vec<u32>>,
    list: &[CtlStep],
    active: &Cell<u32>,
    calm: &Cell<bool>,
) {
    for step in list {
        match &step.op {
            CtlOp::Sleep { ms } => {
                Timer::after(Duration::from_millis(*ms as u64)).await;
                continue;
            }
            CtlOp::WaitCalm { ms } => {
                while !calm.get() {
                    Timer::after(Duration::from_millis(250)).await;
                }
                Timer::after(Duration::from_millis(*ms as u64)).await;
                continue;
            }
            _ => {}
        }
        c.ev(ImKind::OpStart { op: step.op_id });
        let g = my_gen.borrow()[step.pair];
        let pl = dir.planted(step.pair, g);
        let r = match session_id_by_sid(matter, pl.b_local_sid) {
            Some(id) => match Exchange::initiate_for_session(matter, crypto, id) {
                Ok(mut ex) => run_op(c, &mut ex, step).await,
                Err(e) => Err(e),
            },
            None => Err(ErrorCode::NoSession.into()),
        };
        c.ev(ImKind::OpEnd { op: step.op_id, result: code(&r) });
    }
    active.set(active.get() - 1);
}

/// Serves the reports a publisher pushes on fresh exchanges
async fn report_handler_task(
    c: &Ctl<'_>,
    matter: &Matter<'_>,
    behaviour: &[RepB],
    hseq_ctr: &Cell<u32>,
    calm: &Cell<bool>,
) {
    loop {
        let Ok(mut ex) = Exchange::accept(matter).await else {
            continue;
        };
        let hseq = hseq_ctr.get();
        hseq_ctr.set(hseq + 1);
        let sess = usize::MAX;
        let b = if calm.get() {
            RepB::Normal
        } else {
            behaviour.get(hseq as usize).cloned().unwrap_or(RepB::Normal)
        };
        let _: Result<(), Error> = async {
            loop {
                let (opc, pl) = recv_im(c, &mut ex, 0xffff, hseq, sess).await?;
                if opc != OP_REPORT {
                    return Ok(());
                }
                let (more, suppress) = report_flags(&pl);
                // Once the faults have stopped, subscribers behave (also within a report in progress)
                let b = if calm.get() { RepB::Normal } else { b.clone() };
                match &b {
                    RepB::Normal => {}
                    RepB::Ponder(ms) => {
                        // A healthy subscriber that takes a moment over its answer
                        Timer::after(Duration::from_millis(*ms as u64)).await;
                    }
                    RepB::DelayMs(ms) => {
                        c.ev(ImKind::Behave { hseq, what: "delay" });
                        Timer::after(Duration::from_millis(*ms as u64)).await;
                    }
                    RepB::Fail(status) => {
                        c.ev(ImKind::Behave { hseq, what: "fail-status" });
                        send_im(c, &mut ex, 0xffff, hseq, OP_STATUS, &status_msg(*status)).await?;
                        return Ok(());
                    }
                    RepB::SilentMs(ms) => {
                        c.ev(ImKind::Behave { hseq, what: "silent" });
                        Timer::after(Duration::from_millis(*ms as u64)).await;
                        return Ok(());
                    }
                    RepB::Garbage => {
                        c.ev(ImKind::Behave { hseq, what: "garbage" });
                        send_im(c, &mut ex, 0xffff, hseq, OP_WRITE_RESP, &status_msg(0)).await?;
                        return Ok(());
                    }
                }
                if more || !suppress {
                    send_im(c, &mut ex, 0xffff, hseq, OP_STATUS, &status_msg(0)).await?;
                } else {
                    ex.acknowledge().await?;
                }
                if !more {
                    return Ok(());
                }
            }
        }
        .await;
    }
}

pub fn controller_root(ctx: ControllerCtx, shared: Rc<NodeShared>) -> RootFut {
    Box::pin(async move {
        let matter = Matter::new(&TEST_DEV_DET, TEST_DEV_COMM, &TEST_DEV_ATT, net::PORT);
        let rng = NodeRng(Rng::new(
            ctx.seed ^ ((ctx.node as u64) << 48) ^ ((ctx.incarnation as u64) << 32) ^ 0xC71,
        ));
        let crypto = default_crypto(rng, DAC_PRIVKEY);
        matter.with_state(|state| {
            state.fabrics.add_with_post_init(|_| Ok(())).unwrap();
        });
        let my_gen = RefCell::new(ctx.dir.generation.borrow().clone());
        for (i, pair) in ctx.dir.pairs.iter().enumerate() {
            if pair.ctl_node == ctx.node {
                let pl = ctx.dir.planted(i, my_gen.borrow()[i]);
                plant_on(&matter, &crypto, ctx.node, &pl, 1).expect("plant");
            }
        }
        let c = Ctl {
            node: ctx.node,
            incarnation: ctx.incarnation,
            log: &ctx.log,
        };

        let mut tasks: Vec<TaskDef<'_>> = Vec::new();
        {
            let matter = &matter;
            let crypto = &crypto;
            let net = ctx.net.clone();
            let wake = ctx.wake.clone();
            let node = ctx.node;
            let inc = ctx.incarnation;
            tasks.push(TaskDef::restartable("transport", move || {
                let (send, recv, mc) = net.attach(node, wake.clone(), inc);
                Box::pin(async move {
                    let _ = matter.run(crypto, send, recv, mc).await;
                })
            }));
        }
        for _ in 0..ctx.n_report_handlers {
            let c = &c;
            let matter = &matter;
            let behaviour = &ctx.report_behaviour;
            let hseq = &ctx.hseq;
            let calm = &ctx.calm;
            tasks.push(TaskDef::restartable("report-handler", move || {
                Box::pin(report_handler_task(c, matter, behaviour, hseq, calm))
            }));
        }
        for list in &ctx.scripts {
            tasks.push(TaskDef::once(
                "script",
                script_task(&c, &matter, &crypto, &ctx.dir, &my_gen, list, &ctx.active, &ctx.calm),
            ));
        }
        tasks.push(TaskDef::once(
            "keeper",
            keeper_task(&matter, &crypto, ctx.node, ctx.incarnation, &ctx.dir, &my_gen, &ctx.log),
        ));

        let snap = ctx.snap.clone();
        let matter_ref = &matter;
        SimTasks::new(shared, tasks)
            .with_probe(move || {
                *snap.borrow_mut() = Some(matter_ref.verif_snapshot());
            })
            .await
    })
}

