pub mod mrp;
pub mod mrp_drive;
