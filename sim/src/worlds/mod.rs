pub mod full;
pub mod full_drive;
pub mod mrp;
pub mod mrp_drive;
pub mod im;
pub mod im_drive;
