//! The "mrp world": two (or three) real rs-matter stacks with planted secure sessions, generic
//! exchange traffic with unique payload ids, a per-datagram network adversary.
//! Serves C09 (reliable messaging), C10 (exchange dispatch / RX path liveness), C15 (nonce
//! uniqueness, tap oracle), C04 (system level), C03 (corruption / transplant).

use std::cell::{Cell, RefCell};
use std::num::NonZeroU8;
use std::rc::Rc;

use embassy_time::{Duration, Timer};

use rs_matter::crypto::{default_crypto, CanonAeadKeyRef};
use rs_matter::dm::clusters::basic_info::BasicInfoConfig;
use rs_matter::dm::devices::test::{DAC_PRIVKEY, TEST_DEV_ATT, TEST_DEV_COMM, TEST_DEV_DET};
use rs_matter::error::{Error, ErrorCode};
use rs_matter::transport::exchange::{Exchange, MessageMeta};
use rs_matter::transport::session::{NocCatIds, ReservedSession, SessionMode};
use rs_matter::verif::Snapshot;
use rs_matter::Matter;

use crate::kernel::{self, NodeShared, RootFut, SimTasks, TaskDef};
use crate::net::{self, Net};
use crate::tape::{NodeRng, Rng};

pub const PROTO_APP: u16 = 0x7E57;
pub const OP_APP: u8 = 0x21;

#[derive(Clone, Copy, Debug, PartialEq, Eq)]
pub enum Kind {
    Case,
    Pase,
}

/// A planted secure session between node `a` and node `b`
#[derive(Clone, Debug)]
pub struct Planted {
    pub kind: Kind,
    pub a: usize,
    pub b: usize,
    /// Session id chosen by `a` (carried by datagrams addressed to `a`)
    pub a_local_sid: u16,
    pub b_local_sid: u16,
    pub a_nodeid: u64,
    pub b_nodeid: u64,
    /// Key for a -> b traffic
    pub key_ab: [u8; 16],
    pub key_ba: [u8; 16],
}

impl Planted {
    /// The nonce node id used by `src` when encrypting
    pub fn nonce_node(&self, src: usize) -> u64 {
        match self.kind {
            Kind::Pase => 0,
            Kind::Case => {
                if src == self.a {
                    self.a_nodeid
                } else {
                    self.b_nodeid
                }
            }
        }
    }
}

/// One step of an exchange script
#[derive(Clone, Copy, Debug, PartialEq, Eq)]
pub struct Step(pub u8);

impl Step {
    pub const BY_RESPONDER: u8 = 0x01;
    pub const UNRELIABLE: u8 = 0x02;
    pub const ACK_AFTER: u8 = 0x04;
    /// Both sides send, then both receive (full duplex use of one exchange)
    pub const BOTH: u8 = 0x08;
    pub const LEN_SHIFT: u8 = 4;

    pub fn by_responder(&self) -> bool {
        self.0 & Self::BY_RESPONDER != 0
    }
    pub fn reliable(&self) -> bool {
        self.0 & Self::UNRELIABLE == 0
    }
    pub fn ack_after(&self) -> bool {
        self.0 & Self::ACK_AFTER != 0
    }
    pub fn both(&self) -> bool {
        self.0 & Self::BOTH != 0
    }
    pub fn len_class(&self) -> u8 {
        self.0 >> Self::LEN_SHIFT
    }
}

#[derive(Clone, Debug)]
pub struct Workload {
    pub id: u16,
    /// Index into the node's planted session list
    pub planted: usize,
    pub start_delay_ms: u32,
    pub script: Vec<Step>,
    /// Explicitly acknowledge the last received message before dropping the exchange
    pub final_ack: bool,
    /// A group data message (one unreliable step, multicast to the run's group) instead of a
    /// unicast exchange on a planted session
    pub group: bool,
}

#[derive(Clone, Debug, PartialEq, Eq)]
pub enum AppKind {
    Initiated,
    InitiateErr(u16),
    Accepted,
    SendStart { seq: u8, reliable: bool, hash: u64 },
    SendEnd { seq: u8, result: u16 },
    Recv { seq: u8, hash: u64, payload_wl: u16 },
    RecvErr { result: u16 },
    Foreign { proto: u16, opcode: u8 },
    Done { result: u16 },
}

pub const OK: u16 = 0xffff;

/// A real fabric (root CA, one NOC per node, IPK) with one group key set, shared by all nodes of a
/// run which exchanges group data messages
#[derive(Clone, Debug)]
pub struct GroupFabric {
    pub rcac: Vec<u8>,
    /// Per node: (operational secret key in canonical form, NOC)
    pub nodes: Vec<(Vec<u8>, Vec<u8>)>,
    pub ipk: [u8; 16],
    pub group_id: u16,
    pub epoch_key: [u8; 16],
}

pub const GROUP_NODE_ID_BASE: u64 = 0x6000_0000;

pub fn make_group_fabric(seed: u64, n_nodes: usize, group_id: u16) -> Option<GroupFabric> {
    use rs_matter::cert::gen::VALID_FOREVER;
    use rs_matter::cert::MAX_CERT_TLV_AND_ASN1_LEN;
    use rs_matter::crypto::{CanonPkcSecretKey, Crypto as _, SecretKey as _, SigningSecretKey as _};
    use rs_matter::onboard::cac::RcacGenerator;
    use rs_matter::onboard::noc::NocGenerator;

    let crypto = default_crypto(NodeRng(Rng::new(seed ^ 0x6f6f_6f6f)), DAC_PRIVKEY);
    let mut tries = 0;
    let (rcac_priv, rcac) = loop {
        let mut buf = [0u8; MAX_CERT_TLV_AND_ASN1_LEN];
        let mut gen = RcacGenerator::new(&mut buf);
        match gen.generate(&crypto, 1, VALID_FOREVER) {
            Ok((k, c)) => break (k, c.to_vec()),
            Err(_) if tries < 8 => tries += 1,
            Err(_) => return None,
        }
    };
    let mut nodes = Vec::new();
    for n in 0..n_nodes {
        let sk = crypto.generate_secret_key().ok()?;
        let mut csr_buf = [0u8; 256];
        let csr = sk.csr(&mut csr_buf).ok()?;
        let mut canon = CanonPkcSecretKey::new();
        sk.write_canon(&mut canon).ok()?;
        let mut noc_buf = [0u8; MAX_CERT_TLV_AND_ASN1_LEN];
        let mut gen = NocGenerator::create(rcac_priv.reference(), &rcac, &[], &mut noc_buf).ok()?;
        let noc = gen.generate(&crypto, csr, GROUP_NODE_ID_BASE + n as u64, &[], VALID_FOREVER).ok()?;
        nodes.push((canon.reference().access().to_vec(), noc.to_vec()));
    }
    let mut r = Rng::new(seed ^ 0x1234_5678);
    let mut ipk = [0u8; 16];
    let mut epoch_key = [0u8; 16];
    for b in ipk.iter_mut().chain(epoch_key.iter_mut()) {
        *b = r.next_u64() as u8;
    }
    Some(GroupFabric { rcac, nodes, ipk, group_id, epoch_key })
}

pub fn code(r: &Result<(), Error>) -> u16 {
    match r {
        Ok(()) => OK,
        Err(e) => e.code() as u16,
    }
}

#[derive(Clone, Debug)]
pub struct AppEv {
    pub time: u64,
    pub local_time: u64,
    pub node: usize,
    pub incarnation: u32,
    /// Workload id (0xffff when unknown, e.g. a responder which could not parse the request)
    pub wl: u16,
    pub initiator: bool,
    pub kind: AppKind,
}

pub type AppLog = Rc<RefCell<Vec<AppEv>>>;

#[derive(Clone, Debug, Default)]
pub struct HandlerBehaviour {
    /// Delay (ms) before a handler starts accepting (0 = at once)
    pub accept_delay_ms: u32,
    /// Hold a received message for this long before consuming it
    pub hold_rx_ms: u32,
}

pub struct StackCtx {
    pub node: usize,
    pub incarnation: u32,
    pub seed: u64,
    pub net: Net,
    pub wake: std::sync::Arc<kernel::NodeWake>,
    pub planted: Vec<Planted>,
    pub workloads: Vec<Vec<Workload>>,
    pub n_handlers: usize,
    pub behaviour: HandlerBehaviour,
    pub sai: Option<u32>,
    pub log: AppLog,
    pub snap: Rc<RefCell<Option<Snapshot>>>,
    /// Number of initiator task lists still running (all nodes)
    pub active: Rc<Cell<u32>>,
    /// Number of responder handlers currently inside a script (all nodes)
    pub busy_handlers: Rc<Cell<u32>>,
    /// Set by the driver after the settle phase: handlers stop misbehaving, node 0 runs a
    /// probe ping on every planted session
    pub calm: Rc<Cell<bool>>,
    pub probes_done: Rc<Cell<bool>>,
    pub group_fabric: Option<GroupFabric>,
    /// Sessions no workload uses: they are removed while the workloads run
    pub victims: Vec<Planted>,
    /// (time in ms, victim index): removals at this node
    pub closes: Vec<(u64, usize)>,
}

pub const PROBE_WL_BASE: u16 = 9000;

pub fn hash_bytes(b: &[u8]) -> u64 {
    let mut h: u64 = 0xcbf2_9ce4_8422_2325;
    for x in b {
        h ^= *x as u64;
        h = h.wrapping_mul(0x0000_0100_0000_01B3);
    }
    h
}

/// Payload: 'V' 'P' wl(2) seq(1) final_ack(1) nsteps(1) steps.. pad..
pub fn build_payload(wl: &Workload, seq: usize, rng_seed: u64) -> Vec<u8> {
    let step = wl.script[seq];
    let mut p = vec![b'V', b'P'];
    p.extend_from_slice(&wl.id.to_le_bytes());
    p.push(seq as u8);
    p.push(wl.final_ack as u8);
    p.push(wl.script.len() as u8);
    p.extend(wl.script.iter().map(|s| s.0));
    let extra = match step.len_class() & 0x0f {
        0 => 0,
        1 => 1,
        2 => 17,
        3 => 100,
        4 => 400,
        5 => 900,
        // Maximum payload which still fits the UDP TX buffer
        6 => rs_matter::transport::MAX_TX_PAYLOAD_SIZE.saturating_sub(p.len()),
        _ => 33,
    };
    let mut r = Rng::new(rng_seed ^ ((wl.id as u64) << 16) ^ seq as u64);
    for _ in 0..extra {
        p.push(r.next_u64() as u8);
    }
    p
}

pub struct ParsedPayload {
    pub wl: u16,
    pub seq: u8,
    pub final_ack: bool,
    pub script: Vec<Step>,
}

pub fn parse_payload(p: &[u8]) -> Option<ParsedPayload> {
    if p.len() < 7 || p[0] != b'V' || p[1] != b'P' {
        return None;
    }
    let wl = u16::from_le_bytes([p[2], p[3]]);
    let seq = p[4];
    let final_ack = p[5] != 0;
    let n = p[6] as usize;
    let script = p.get(7..7 + n)?.iter().map(|b| Step(*b)).collect();
    Some(ParsedPayload {
        wl,
        seq,
        final_ack,
        script,
    })
}

struct AppCtx {
    node: usize,
    incarnation: u32,
    log: AppLog,
    seed: u64,
    group_id: Option<u16>,
}

impl AppCtx {
    fn ev(&self, wl: u16, initiator: bool, kind: AppKind) {
        let ev = AppEv {
            time: kernel::now(),
            local_time: kernel::local_now(),
            node: self.node,
            incarnation: self.incarnation,
            wl,
            initiator,
            kind,
        };
        kernel::trace("app", self.node as u64, wl as u64, format!("{:?}", ev.kind).as_bytes());
        self.log.borrow_mut().push(ev);
    }
}

async fn do_send(
    app: &AppCtx,
    ex: &mut Exchange<'_>,
    wl: &Workload,
    seq: usize,
    initiator: bool,
) -> Result<(), Error> {
    let step = wl.script[seq];
    let payload = build_payload(wl, seq, app.seed);
    app.ev(
        wl.id,
        initiator,
        AppKind::SendStart {
            seq: seq as u8,
            reliable: step.reliable(),
            hash: hash_bytes(&payload),
        },
    );
    let r = ex
        .send(MessageMeta::new(PROTO_APP, OP_APP, step.reliable()), &payload)
        .await;
    app.ev(
        wl.id,
        initiator,
        AppKind::SendEnd {
            seq: seq as u8,
            result: code(&r),
        },
    );
    r
}

async fn do_recv(
    app: &AppCtx,
    ex: &mut Exchange<'_>,
    wl_id: u16,
    initiator: bool,
    hold_rx_ms: u32,
) -> Result<Option<ParsedPayload>, Error> {
    match ex.recv().await {
        Ok(rx) => {
            if hold_rx_ms > 0 {
                Timer::after(Duration::from_millis(hold_rx_ms as u64)).await;
            }
            let meta = rx.meta();
            if meta.proto_id != PROTO_APP {
                app.ev(
                    wl_id,
                    initiator,
                    AppKind::Foreign {
                        proto: meta.proto_id,
                        opcode: meta.proto_opcode,
                    },
                );
                return Ok(None);
            }
            let parsed = parse_payload(rx.payload());
            let hash = hash_bytes(rx.payload());
            match parsed {
                Some(p) => {
                    app.ev(
                        if wl_id == 0xffff { p.wl } else { wl_id },
                        initiator,
                        AppKind::Recv {
                            seq: p.seq,
                            hash,
                            payload_wl: p.wl,
                        },
                    );
                    Ok(Some(p))
                }
                None => {
                    app.ev(
                        wl_id,
                        initiator,
                        AppKind::Foreign {
                            proto: meta.proto_id,
                            opcode: meta.proto_opcode,
                        },
                    );
                    Ok(None)
                }
            }
        }
        Err(e) => {
            app.ev(
                wl_id,
                initiator,
                AppKind::RecvErr {
                    result: e.code() as u16,
                },
            );
            Err(e)
        }
    }
}

/// Run the script from step `from` on. `initiator` tells which role we play.
async fn run_script(
    app: &AppCtx,
    ex: &mut Exchange<'_>,
    wl: &Workload,
    from: usize,
    initiator: bool,
    hold_rx_ms: u32,
) -> Result<(), Error> {
    let mut last_was_recv = from > 0 && !initiator;
    for seq in from..wl.script.len() {
        let step = wl.script[seq];
        if step.both() {
            // Full duplex: both sides send their message `seq`, then receive the peer's
            do_send(app, ex, wl, seq, initiator).await?;
            do_recv(app, ex, wl.id, initiator, hold_rx_ms).await?;
            last_was_recv = true;
            continue;
        }
        let my_turn = step.by_responder() != initiator;
        if my_turn {
            do_send(app, ex, wl, seq, initiator).await?;
            last_was_recv = false;
        } else {
            do_recv(app, ex, wl.id, initiator, hold_rx_ms).await?;
            last_was_recv = true;
            if step.ack_after() {
                ex.acknowledge().await?;
            }
        }
    }
    if last_was_recv && wl.final_ack {
        ex.acknowledge().await?;
    }
    Ok(())
}

async fn initiator_task(
    app: &AppCtx,
    matter: &Matter<'_>,
    crypto: &impl rs_matter::crypto::Crypto,
    planted: &[Planted],
    list: &[Workload],
    active: &Cell<u32>,
) {
    for wl in list {
        if wl.start_delay_ms > 0 {
            Timer::after(Duration::from_millis(wl.start_delay_ms as u64)).await;
        }
        if wl.group {
            let kv = matter.kv(crate::kv::SimKv::new());
            let gid = app.group_id.unwrap_or(0);
            match Exchange::initiate_group(matter, crypto, &kv, NonZeroU8::new(1).unwrap(), gid) {
                Ok(mut ex) => {
                    app.ev(wl.id, true, AppKind::Initiated);
                    let r = do_send(app, &mut ex, wl, 0, true).await;
                    // Let the transport put it on the wire before the exchange goes away
                    Timer::after(Duration::from_millis(2)).await;
                    app.ev(wl.id, true, AppKind::Done { result: code(&r) });
                }
                Err(e) => app.ev(wl.id, true, AppKind::InitiateErr(e.code() as u16)),
            }
            continue;
        }
        let p = &planted[wl.planted];
        let my_sid = if p.a == app.node {
            p.a_local_sid
        } else {
            p.b_local_sid
        };
        let sess = matter
            .verif_snapshot()
            .sessions
            .iter()
            .find(|s| s.local_sess_id == my_sid && !s.reserved)
            .map(|s| s.id);
        let ex = match sess {
            Some(id) => Exchange::initiate_for_session(matter, crypto, id),
            None => Err(ErrorCode::NoSession.into()),
        };
        match ex {
            Ok(mut ex) => {
                app.ev(wl.id, true, AppKind::Initiated);
                let r = run_script(app, &mut ex, wl, 0, true, 0).await;
                app.ev(wl.id, true, AppKind::Done { result: code(&r) });
            }
            Err(e) => {
                app.ev(wl.id, true, AppKind::InitiateErr(e.code() as u16));
            }
        }
    }
    active.set(active.get() - 1);
}

/// Removes, at the scripted times, a session of this node which carries nothing (the way an
/// eviction for a new handshake does), while the node's other sessions and exchanges are busy.
/// (A CloseSession status report from the peer would be the other way to lose a session, but
/// rs-matter refuses one that arrives on an exchange of its own - "No valid exchange found" -
/// which is how every implementation sends it.)
async fn closer_task(matter: &Matter<'_>, node: usize, victims: &[Planted], closes: &[(u64, usize)]) {
    let mut elapsed = 0u64;
    for (at_ms, v) in closes {
        if *at_ms > elapsed {
            Timer::after(Duration::from_millis(*at_ms - elapsed)).await;
            elapsed = *at_ms;
        }
        let p = &victims[*v];
        let my_sid = if p.a == node { p.a_local_sid } else { p.b_local_sid };
        let sess = matter
            .verif_snapshot()
            .sessions
            .iter()
            .find(|s| s.local_sess_id == my_sid && !s.reserved)
            .map(|s| s.id);
        if let Some(id) = sess {
            let removed = matter.verif_remove_session(id);
            kernel::trace("session_removed", node as u64, *v as u64, &[removed as u8]);
        }
    }
}

async fn probe_task(
    app: &AppCtx,
    matter: &Matter<'_>,
    crypto: &impl rs_matter::crypto::Crypto,
    planted: &[Planted],
    calm: &Cell<bool>,
    probes_done: &Cell<bool>,
) {
    while !calm.get() {
        Timer::after(Duration::from_millis(100)).await;
    }
    // Handlers which are in the middle of an "accept late" sleep finish it first
    Timer::after(Duration::from_millis(2_000)).await;
    let list: Vec<Workload> = (0..planted.len())
        // (the raw peer - node index 100 - does not answer probes)
        .filter(|i| (planted[*i].a == app.node || planted[*i].b == app.node) && planted[*i].a < 100 && planted[*i].b < 100)
        .map(|i| Workload {
            id: PROBE_WL_BASE + i as u16,
            planted: i,
            start_delay_ms: 0,
            script: vec![Step(0x00), Step(Step::BY_RESPONDER)],
            final_ack: true,
            group: false,
        })
        .collect();
    let _done = SetOnDrop(probes_done);
    let active = Cell::new(1);
    initiator_task(app, matter, crypto, planted, &list, &active).await;
}

async fn handler_task(
    app: &AppCtx,
    matter: &Matter<'_>,
    behaviour: &HandlerBehaviour,
    busy: &Cell<u32>,
    calm: &Cell<bool>,
) {
    let calm_behaviour = HandlerBehaviour::default();
    loop {
        let behaviour = if calm.get() { &calm_behaviour } else { behaviour };
        if behaviour.accept_delay_ms > 0 {
            Timer::after(Duration::from_millis(behaviour.accept_delay_ms as u64)).await;
        }
        let Ok(mut ex) = Exchange::accept(matter).await else {
            continue;
        };
        busy.set(busy.get() + 1);
        // Decrement on every exit path, including cancellation of this task
        let _guard = BusyGuard(busy);
        app.ev(0xffff, false, AppKind::Accepted);
        let first = do_recv(app, &mut ex, 0xffff, false, behaviour.hold_rx_ms).await;
        let r = match first {
            Ok(Some(p)) => {
                let wl = Workload {
                    id: p.wl,
                    planted: 0,
                    start_delay_ms: 0,
                    script: p.script.clone(),
                    final_ack: p.final_ack,
                    group: false,
                };
                if p.seq != 0 || wl.script.is_empty() || wl.script[0].by_responder() {
                    Err(ErrorCode::Invalid.into())
                } else {
                    let r = async {
                        if wl.script[0].both() {
                            // We owe our half of the full-duplex step
                            do_send(app, &mut ex, &wl, 0, false).await?;
                        } else if wl.script[0].ack_after() {
                            ex.acknowledge().await?;
                        }
                        run_script(app, &mut ex, &wl, 1, false, behaviour.hold_rx_ms).await
                    }
                    .await;
                    app.ev(wl.id, false, AppKind::Done { result: code(&r) });
                    r
                }
            }
            Ok(None) => Ok(()),
            Err(e) => Err(e),
        };
        let _ = r;
    }
}

struct SetOnDrop<'a>(&'a Cell<bool>);

impl Drop for SetOnDrop<'_> {
    fn drop(&mut self) {
        self.0.set(true);
    }
}

struct BusyGuard<'a>(&'a Cell<u32>);

impl Drop for BusyGuard<'_> {
    fn drop(&mut self) {
        self.0.set(self.0.get() - 1);
    }
}

pub fn plant(
    matter: &Matter<'_>,
    crypto: &impl rs_matter::crypto::Crypto,
    node: usize,
    p: &Planted,
) -> Result<(), Error> {
    let (local_nodeid, peer_nodeid, local_sid, peer_sid, peer, enc, dec) = if p.a == node {
        (p.a_nodeid, p.b_nodeid, p.a_local_sid, p.b_local_sid, p.b, &p.key_ab, &p.key_ba)
    } else {
        (p.b_nodeid, p.a_nodeid, p.b_local_sid, p.a_local_sid, p.a, &p.key_ba, &p.key_ab)
    };
    let mut session = ReservedSession::reserve_now(matter, crypto)?;
    let mode = match p.kind {
        Kind::Case => SessionMode::Case {
            fab_idx: NonZeroU8::new(1).unwrap(),
            cat_ids: NocCatIds::default(),
        },
        Kind::Pase => SessionMode::Pase { fab_idx: 0 },
    };
    let (ln, pn) = match p.kind {
        Kind::Case => (local_nodeid, peer_nodeid),
        Kind::Pase => (0, 0),
    };
    session.update(
        ln,
        pn,
        peer_sid,
        local_sid,
        net::node_addr(peer),
        mode,
        Some(CanonAeadKeyRef::new(dec)),
        Some(CanonAeadKeyRef::new(enc)),
        None,
        None,
    )?;
    session.complete();
    Ok(())
}

/// Build the root future of one stack node
pub fn stack_root(ctx: StackCtx, shared: Rc<NodeShared>) -> RootFut {
    Box::pin(async move {
        let dev_det = BasicInfoConfig {
            sai: ctx.sai,
            ..TEST_DEV_DET
        };
        let matter = Matter::new(&dev_det, TEST_DEV_COMM, &TEST_DEV_ATT, net::PORT);
        let rng = NodeRng(Rng::new(
            ctx.seed ^ ((ctx.node as u64) << 48) ^ ((ctx.incarnation as u64) << 32) ^ 0xC0FFEE,
        ));
        let crypto = default_crypto(rng, DAC_PRIVKEY);

        matter.with_state(|state| {
            match &ctx.group_fabric {
                None => {
                    state.fabrics.add_with_post_init(|_| Ok(())).unwrap();
                }
                Some(gf) => {
                    use rs_matter::crypto::{CanonAeadKey, CanonPkcSecretKey};
                    use rs_matter::fabric::GroupKeyMapping;
                    use rs_matter::group_keys::{GroupEpochKeyEntry, GroupKeySet};
                    let (sk_bytes, noc) = &gf.nodes[ctx.node];
                    let mut sk = CanonPkcSecretKey::new();
                    sk.access_mut().copy_from_slice(sk_bytes);
                    let mut ipk = CanonAeadKey::new();
                    ipk.access_mut().copy_from_slice(&gf.ipk);
                    state
                        .fabrics
                        .add(&crypto, sk.reference(), &gf.rcac, noc, &[], Some(ipk.reference()), 0xFFF1, 1)
                        .expect("group fabric");
                    let fabric = state.fabrics.fabric_mut(NonZeroU8::new(1).unwrap()).unwrap();
                    let mut key = CanonAeadKey::new();
                    key.access_mut().copy_from_slice(&gf.epoch_key);
                    let mut ks = GroupKeySet {
                        group_key_set_id: 1,
                        group_key_security_policy: 0,
                        epoch_keys: Default::default(),
                    };
                    ks.epoch_keys
                        .push(GroupEpochKeyEntry { epoch_key: key, epoch_start_time: 1 })
                        .map_err(|_| ())
                        .unwrap();
                    fabric.groups_mut().key_set_add(ks).unwrap();
                    // Four groups which differ in one or two bits of their id share the key set: a
                    // group id altered on the path then names another group this node is a member of
                    for gid in [gf.group_id & !3, (gf.group_id & !3) | 1, (gf.group_id & !3) | 2, (gf.group_id & !3) | 3] {
                        fabric
                            .groups_mut()
                            .key_map_add(GroupKeyMapping { group_id: gid, group_key_set_id: 1 })
                            .unwrap();
                        fabric.groups_mut().add(1, gid, "g").unwrap();
                    }
                }
            }
        });
        for p in ctx.planted.iter().chain(ctx.victims.iter()).filter(|p| p.a == ctx.node || p.b == ctx.node) {
            plant(&matter, &crypto, ctx.node, p).expect("plant session");
        }

        let app = AppCtx {
            node: ctx.node,
            incarnation: ctx.incarnation,
            log: ctx.log.clone(),
            seed: ctx.seed,
            group_id: ctx.group_fabric.as_ref().map(|g| g.group_id),
        };

        let mut tasks: Vec<TaskDef<'_>> = Vec::new();
        {
            let matter = &matter;
            let crypto = &crypto;
            let net = ctx.net.clone();
            let wake = ctx.wake.clone();
            let node = ctx.node;
            let inc = ctx.incarnation;
            tasks.push(TaskDef::restartable("transport", move || {
                let (send, recv, mc) = net.attach(node, wake.clone(), inc);
                Box::pin(async move {
                    let r = matter.run(crypto, send, recv, mc).await;
                    kernel::trace("transport_exit", node as u64, code(&r) as u64, &[]);
                })
            }));
        }
        for _ in 0..ctx.n_handlers {
            let app = &app;
            let matter = &matter;
            let behaviour = &ctx.behaviour;
            let busy = &ctx.busy_handlers;
            let calm = &ctx.calm;
            tasks.push(TaskDef::restartable("handler", move || {
                Box::pin(handler_task(app, matter, behaviour, busy, calm))
            }));
        }
        for list in &ctx.workloads {
            tasks.push(TaskDef::once(
                "initiator",
                initiator_task(&app, &matter, &crypto, &ctx.planted, list, &ctx.active),
            ));
        }

        if !ctx.closes.is_empty() {
            tasks.push(TaskDef::once("closer", closer_task(&matter, ctx.node, &ctx.victims, &ctx.closes)));
        }

        if ctx.node == 0 {
            tasks.push(TaskDef::once(
                "probe",
                probe_task(&app, &matter, &crypto, &ctx.planted, &ctx.calm, &ctx.probes_done),
            ));
        }

        let snap = ctx.snap.clone();
        let matter_ref = &matter;
        SimTasks::new(shared, tasks)
            .with_probe(move || {
                *snap.borrow_mut() = Some(matter_ref.verif_snapshot());
            })
            .await
    })
}
