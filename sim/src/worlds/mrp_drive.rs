//! Drives one run of the mrp world: swarm configuration from the tape, adversary, end condition,
//! and the indexed history (tap + app log + transport events) the oracles work on.

use std::cell::{Cell, RefCell};
use std::collections::BTreeMap;
use std::rc::Rc;

use rs_matter::verif::{Event, Snapshot};

use crate::kernel::{self, Exec, ExecStats, SchedCfg, StopReason, MS, SEC};
use crate::net::{self, Fate, Net, NetStats, Policy, TapEvent, TapSend};
use crate::tape;
use crate::wire::{self, Plain, Proto};
use crate::worlds::mrp::*;

#[derive(Clone, Debug)]
pub struct NetCfg {
    pub latency_us: u64,
    pub jitter_us: u64,
    pub drop_permille: u32,
    pub dup_permille: u32,
    pub hold_permille: u32,
    pub hold_max_ms: u64,
    /// Targeted adversary mode
    pub mode: AdvMode,
}

#[derive(Clone, Debug, PartialEq, Eq)]
pub enum AdvMode {
    Uniform,
    /// Drop (most) stand-alone acknowledgements
    DropAcks,
    /// Drop every first transmission of a reliable message
    DropFirstTx,
    /// Drop everything from node `src` during [from, until) (µs): partition with heal
    Blackout { src: usize, from: u64, until: u64 },
    /// Drop every datagram from `src` (permanent one-way partition)
    OneWay { src: usize },
}

#[derive(Clone, Debug)]
pub struct MrpCfg {
    pub planted: Vec<Planted>,
    /// Per node: task lists of workloads
    pub workloads: Vec<Vec<Vec<Workload>>>,
    pub handlers: Vec<usize>,
    pub sai: Vec<Option<u32>>,
    pub ppm: Vec<i64>,
    pub behaviour: Vec<HandlerBehaviour>,
    pub net: NetCfg,
    pub sched: SchedCfg,
    pub limit_us: u64,
    /// (time, node, handler index): cancel (drop) that handler task at its current await point
    pub cancels: Vec<(u64, usize, usize)>,
    /// After the workload phase, stop all faults, let everything settle and then observe a
    /// quiet window
    pub settle: bool,
    pub group_fabric: Option<GroupFabric>,
    /// Extra sessions which carry nothing and are removed (evicted) while the workloads run
    pub victims: Vec<Planted>,
    /// (time in ms, node which loses its side of the session, victim index)
    pub closes: Vec<(u64, usize, usize)>,
    /// Datagrams of the raw peer (sessions with `b == RAW_NODE` in `planted`)
    pub raw_msgs: Vec<RawMsg>,
    /// Do not end the run before this time (the raw peer's script is still running)
    pub hold_until_us: u64,
}

/// Node index of the raw peer: not an rs-matter stack but harness-made traffic of a peer which
/// holds the keys of its sessions (a conforming implementation other than rs-matter)
pub const RAW_NODE: usize = 100;

/// One datagram of the raw peer, authentic under the keys of a planted session
#[derive(Clone, Debug)]
pub struct RawMsg {
    pub at_us: u64,
    /// Index into `MrpCfg::planted` (a session whose `b` end is `RAW_NODE`)
    pub planted: usize,
    pub ctr: u32,
    pub exch_id: u16,
    pub initiator: bool,
    pub reliable: bool,
    pub ack: Option<u32>,
    pub vendor: Option<u16>,
    pub proto_id: u16,
    pub opcode: u8,
    pub payload: Vec<u8>,
}

/// The bytes of a raw peer datagram
pub fn raw_bytes(p: &Planted, m: &RawMsg) -> Vec<u8> {
    use crate::wire;
    let mut xf = 0u8;
    if m.initiator {
        xf |= wire::XF_INITIATOR;
    }
    if m.reliable {
        xf |= wire::XF_RELIABLE;
    }
    let proto = wire::Proto {
        exch_flags: xf,
        opcode: m.opcode,
        exch_id: m.exch_id,
        proto_id: m.proto_id,
        vendor: m.vendor,
        ack: m.ack,
        payload: m.payload.clone(),
    };
    // The raw peer is the `b` end: it sends to `a` under key b -> a, addressed by a's session id
    wire::encode(p.a_local_sid, 0, m.ctr, None, None, &proto, Some(&p.key_ba), p.nonce_node(p.b))
}

thread_local! {
    /// The network of the run in progress (for policies which answer datagrams themselves)
    static CURRENT_NET: RefCell<Option<Net>> = const { RefCell::new(None) };
}

/// One answer of the raw peer: (time, planted session, acknowledged counter, datagram id,
/// optional header fields used)
#[derive(Clone, Debug)]
pub struct RawReply {
    pub time: u64,
    pub planted: usize,
    pub acked: u32,
    pub bytes: Vec<u8>,
    pub vendor: Option<u16>,
    pub with_ack: bool,
    pub standalone: bool,
}

/// Network policy wrapper which plays the raw peer's part in exchanges the stacks open with it:
/// a reliable message addressed to the raw peer is answered - by a stand-alone acknowledgement, or
/// by the next message of the exchange's script carrying the acknowledgement, with or without a
/// protocol vendor id (every combination of the optional protocol header fields).
pub struct RawResponder {
    pub inner: Box<dyn Policy>,
    pub planted: Vec<Planted>,
    pub seed: u64,
    pub latency_us: u64,
    /// Next counter per planted session
    pub ctrs: BTreeMap<usize, u32>,
    /// Answers already given: (planted, counter answered) -> datagrams
    pub given: BTreeMap<(usize, u32), Vec<Vec<u8>>>,
    pub app_log: Rc<RefCell<Vec<AppEv>>>,
    pub replies: Rc<RefCell<Vec<RawReply>>>,
    pub fired: Rc<RefCell<BTreeMap<&'static str, u64>>>,
}

impl RawResponder {
    fn answer(&mut self, rec: &TapSend) {
        let Some(plain) = wire::decode_plain(&rec.bytes) else {
            return;
        };
        let Some((idx, p)) = self
            .planted
            .iter()
            .enumerate()
            .find(|(_, p)| p.b == RAW_NODE && p.a == rec.src && p.b_local_sid == plain.sess_id)
        else {
            return;
        };
        let p = p.clone();
        let Some(proto) = wire::decode_proto(&rec.bytes, &plain, Some(&p.key_ab), p.nonce_node(p.a)) else {
            return;
        };
        if !proto.is_reliable() || proto.is_standalone_ack() {
            return;
        }
        let dst = net::node_addr(p.a);
        let lat = self.latency_us;
        let inject = |bytes: Vec<u8>| {
            let net = CURRENT_NET.with(|c| c.borrow().clone());
            if let Some(net) = net {
                // (outside of the send call which is consulting this policy)
                kernel::after(0, move || {
                    net.inject(RAW_NODE, dst, &bytes, lat);
                });
            }
        };
        // A retransmission gets the same answer again
        if let Some(old) = self.given.get(&(idx, plain.ctr)) {
            for b in old.clone() {
                inject(b);
            }
            *self.fired.borrow_mut().entry("raw_peer_answer_repeated").or_default() += 1;
            return;
        }
        let mut next_ctr = |me: &mut Self| {
            let c = me.ctrs.entry(idx).or_insert(0x0100_0000 + (me.seed as u32 & 0x00ff_ffff));
            *c += 1;
            *c
        };
        let mk = |ctr: u32, proto_id: u16, opcode: u8, ack: Option<u32>, vendor: Option<u16>, payload: Vec<u8>| {
            raw_bytes(
                &p,
                &RawMsg {
                    at_us: 0,
                    planted: idx,
                    ctr,
                    exch_id: proto.exch_id,
                    initiator: !proto.is_initiator(),
                    reliable: false,
                    ack,
                    vendor,
                    proto_id,
                    opcode,
                    payload,
                },
            )
        };
        // Does the exchange's script want a message from us next?
        let next = parse_payload(&proto.payload).and_then(|pp| {
            let seq = pp.seq as usize + 1;
            let st = pp.script.get(seq)?;
            if st.both() || st.by_responder() == proto.is_initiator() {
                let wl = Workload { id: pp.wl, planted: idx, start_delay_ms: 0, script: pp.script.clone(), final_ack: pp.final_ack, group: false };
                Some((wl, seq))
            } else {
                None
            }
        });
        let mut out: Vec<Vec<u8>> = Vec::new();
        let mut recs: Vec<RawReply> = Vec::new();
        let now = kernel::now();
        match next {
            Some((wl, seq)) if !wl.script[seq].both() => {
                let payload = build_payload(&wl, seq, self.seed);
                self.app_log.borrow_mut().push(AppEv {
                    time: now,
                    local_time: now,
                    node: RAW_NODE,
                    incarnation: 1,
                    wl: wl.id,
                    initiator: !proto.is_initiator(),
                    kind: AppKind::SendStart { seq: seq as u8, reliable: false, hash: hash_bytes(&payload) },
                });
                // Optional header fields: A, V|A, or V alone next to a stand-alone acknowledgement
                let shape = tape::choose(3);
                let vendor = if shape == 0 { None } else { Some([0xfff1u16, 0x0001, 0x1234, 0xffff][tape::choose(4) as usize]) };
                if shape == 2 {
                    let c = next_ctr(self);
                    out.push(mk(c, 0, 0x10, Some(plain.ctr), None, vec![]));
                    recs.push(RawReply { time: now, planted: idx, acked: plain.ctr, bytes: Vec::new(), vendor: None, with_ack: true, standalone: true });
                    let c = next_ctr(self);
                    out.push(mk(c, PROTO_APP, OP_APP, None, vendor, payload));
                    recs.push(RawReply { time: now, planted: idx, acked: plain.ctr, bytes: Vec::new(), vendor, with_ack: false, standalone: false });
                } else {
                    let c = next_ctr(self);
                    out.push(mk(c, PROTO_APP, OP_APP, Some(plain.ctr), vendor, payload));
                    recs.push(RawReply { time: now, planted: idx, acked: plain.ctr, bytes: Vec::new(), vendor, with_ack: true, standalone: false });
                }
            }
            _ => {
                let c = next_ctr(self);
                out.push(mk(c, 0, 0x10, Some(plain.ctr), None, vec![]));
                recs.push(RawReply { time: now, planted: idx, acked: plain.ctr, bytes: Vec::new(), vendor: None, with_ack: true, standalone: true });
            }
        }
        for (b, mut r) in out.iter().cloned().zip(recs) {
            r.bytes = b.clone();
            inject(b);
            self.replies.borrow_mut().push(r);
        }
        *self.fired.borrow_mut().entry("raw_peer_answers").or_default() += 1;
        self.given.insert((idx, plain.ctr), out);
    }
}

impl Policy for RawResponder {
    fn decide(&mut self, rec: &TapSend) -> Vec<Fate> {
        if net::addr_node(&rec.dst) == Some(RAW_NODE) {
            self.answer(rec);
            // Nobody listens at the raw peer's address: the datagram ends here
            return Vec::new();
        }
        self.inner.decide(rec)
    }
}

#[derive(Clone, Copy, Debug)]
pub struct MrpKnobs {
    pub faults: bool,
    pub sched: bool,
    pub allow_both: bool,
    pub allow_unreliable: bool,
    pub allow_skew: bool,
    pub max_workloads: u32,
    pub max_steps: u32,
    pub slow_handlers: bool,
    pub cancel_handlers: bool,
    pub settle: bool,
    /// Probability (permille) of a step being sent without the reliability flag
    pub unreliable_permille: u32,
    /// Other, idle sessions of the nodes are removed while the workloads run
    pub session_closes: bool,
}

impl MrpKnobs {
    pub fn fault_free() -> Self {
        MrpKnobs {
            faults: false,
            sched: false,
            allow_both: false,
            allow_unreliable: false,
            allow_skew: false,
            max_workloads: 4,
            max_steps: 6,
            slow_handlers: false,
            cancel_handlers: false,
            settle: false,
            unreliable_permille: 40,
            session_closes: true,
        }
    }
    pub fn full() -> Self {
        MrpKnobs {
            faults: true,
            sched: true,
            allow_both: false,
            allow_unreliable: true,
            allow_skew: true,
            max_workloads: 6,
            max_steps: 8,
            slow_handlers: false,
            cancel_handlers: false,
            settle: false,
            unreliable_permille: 40,
            session_closes: true,
        }
    }
}

fn gen_key(tag: u64) -> [u8; 16] {
    let mut r = crate::tape::Rng::new(tag);
    let mut k = [0u8; 16];
    k[..8].copy_from_slice(&r.next_u64().to_le_bytes());
    k[8..].copy_from_slice(&r.next_u64().to_le_bytes());
    k
}

/// Draw a configuration from the tape
pub fn gen_cfg(seed: u64, knobs: &MrpKnobs) -> MrpCfg {
    let n_nodes = 2;
    // Sessions
    let n_sessions = 1 + tape::biased(2, 300) as usize;
    let mut planted = Vec::new();
    for i in 0..n_sessions {
        let kind = if tape::biased(2, 300) == 1 {
            Kind::Pase
        } else {
            Kind::Case
        };
        planted.push(Planted {
            kind,
            a: 0,
            b: 1,
            a_local_sid: 10 + i as u16,
            b_local_sid: 20 + i as u16,
            a_nodeid: 0x1111_0000 + i as u64,
            b_nodeid: 0x2222_0000 + i as u64,
            key_ab: gen_key(seed ^ (0xA0 + i as u64)),
            key_ba: gen_key(seed ^ (0xB0 + i as u64)),
        });
    }

    // Workloads
    let n_wl = 1 + tape::choose(knobs.max_workloads) as usize;
    let mut workloads: Vec<Vec<Vec<Workload>>> = vec![Vec::new(); n_nodes];
    for w in 0..n_wl {
        let node = tape::biased(2, 250) as usize;
        let pl = tape::choose(n_sessions as u32) as usize;
        let steps = 1 + tape::choose(knobs.max_steps) as usize;
        let mut script = Vec::new();
        for s in 0..steps {
            let mut b = 0u8;
            if s > 0 {
                // who sends: 0 = alternate (ping-pong), 1 = same as before (burst)
                let prev: Step = script[s - 1];
                let same = tape::biased(2, 250) == 1;
                let by_resp = if same {
                    prev.by_responder()
                } else {
                    !prev.by_responder()
                };
                if by_resp {
                    b |= Step::BY_RESPONDER;
                }
            }
            if knobs.allow_unreliable && tape::biased(2, knobs.unreliable_permille) == 1 {
                b |= Step::UNRELIABLE;
            }
            if tape::biased(2, 400) == 1 {
                b |= Step::ACK_AFTER;
            }
            if knobs.allow_both && tape::biased(2, 100) == 1 {
                b |= Step::BOTH;
                b &= !Step::BY_RESPONDER;
            }
            let len = tape::biased(8, 400) as u8;
            b |= len << Step::LEN_SHIFT;
            script.push(Step(b));
        }
        let wl = Workload {
            id: 1 + w as u16,
            planted: pl,
            start_delay_ms: tape::biased(8, 400) * 37,
            script,
            final_ack: tape::biased(2, 500) == 1,
            group: false,
        };
        // Either append to an existing task list (sequential) or start a new one (concurrent)
        let lists = &mut workloads[node];
        if !lists.is_empty() && tape::biased(2, 300) == 1 {
            let k = tape::choose(lists.len() as u32) as usize;
            lists[k].push(wl);
        } else {
            lists.push(vec![wl]);
        }
    }

    let handlers = (0..n_nodes).map(|_| 1 + tape::biased(4, 500) as usize).collect();
    let sai = (0..n_nodes)
        .map(|_| match tape::biased(4, 300) {
            0 => None,
            1 => Some(200),
            2 => Some(500),
            _ => Some(1000),
        })
        .collect();
    let ppm = (0..n_nodes)
        .map(|_| {
            if knobs.allow_skew {
                match tape::biased(5, 300) {
                    0 => 0,
                    1 => 50_000,
                    2 => -50_000,
                    3 => 100_000,
                    _ => -100_000,
                }
            } else {
                tape::choose(1);
                0
            }
        })
        .collect();
    let behaviour = (0..n_nodes)
        .map(|_| {
            if knobs.slow_handlers {
                HandlerBehaviour {
                    accept_delay_ms: [0, 0, 20, 200, 700, 1500][tape::biased(6, 500) as usize],
                    hold_rx_ms: [0, 0, 10, 100, 400][tape::biased(5, 400) as usize],
                }
            } else {
                HandlerBehaviour::default()
            }
        })
        .collect();

    let net = if knobs.faults {
        let mode = match tape::biased(5, 350) {
            0 => AdvMode::Uniform,
            1 => AdvMode::DropAcks,
            2 => AdvMode::DropFirstTx,
            3 => {
                let from = tape::choose(20) as u64 * 100 * MS;
                AdvMode::Blackout {
                    src: tape::choose(2) as usize,
                    from,
                    until: from + (1 + tape::choose(80) as u64) * 100 * MS,
                }
            }
            _ => AdvMode::OneWay {
                src: tape::choose(2) as usize,
            },
        };
        NetCfg {
            latency_us: 200 + tape::choose(5) as u64 * 2_000,
            jitter_us: tape::choose(4) as u64 * 3_000,
            drop_permille: [0, 50, 150, 300, 500][tape::choose(5) as usize],
            dup_permille: [0, 50, 150, 300][tape::choose(4) as usize],
            hold_permille: [0, 50, 150, 300][tape::choose(4) as usize],
            hold_max_ms: [20, 400, 2000, 8000][tape::choose(4) as usize],
            mode,
        }
    } else {
        NetCfg {
            latency_us: 1_000,
            jitter_us: 0,
            drop_permille: 0,
            dup_permille: 0,
            hold_permille: 0,
            hold_max_ms: 0,
            mode: AdvMode::Uniform,
        }
    };

    let sched = if knobs.sched {
        SchedCfg {
            nonfifo_permille: [0, 50, 200, 500][tape::choose(4) as usize],
            burst_permille: [0, 100, 400][tape::choose(3) as usize],
            overtake_permille: [0, 0, 20, 100][tape::choose(4) as usize],
            overtake_window: 50 * MS,
            max_polls: 400_000,
            max_time: 300 * SEC,
        }
    } else {
        SchedCfg {
            max_polls: 400_000,
            max_time: 300 * SEC,
            ..SchedCfg::default()
        }
    };

    let mut cancels = Vec::new();
    if knobs.cancel_handlers {
        let n = tape::biased(4, 500);
        for _ in 0..n {
            let node = tape::choose(2) as usize;
            cancels.push((
                tape::choose(400) as u64 * 5 * MS,
                node,
                tape::choose(4) as usize,
            ));
        }
        cancels.sort();
    }

    // Idle sessions which are removed while the workloads run (1 to 4 in a third of the runs)
    let mut victims = Vec::new();
    let mut closes = Vec::new();
    if knobs.session_closes && tape::biased(3, 350) != 0 {
        let n = 1 + tape::biased(4, 400) as usize;
        for i in 0..n {
            victims.push(Planted {
                kind: if tape::biased(2, 300) == 1 { Kind::Pase } else { Kind::Case },
                a: 0,
                b: 1,
                a_local_sid: 40 + i as u16,
                b_local_sid: 50 + i as u16,
                a_nodeid: 0x1111_0100 + i as u64,
                b_nodeid: 0x2222_0100 + i as u64,
                key_ab: gen_key(seed ^ (0xC0 + i as u64)),
                key_ba: gen_key(seed ^ (0xD0 + i as u64)),
            });
            closes.push((tape::choose(80) as u64 * 20, tape::choose(2) as usize, i));
        }
        closes.sort();
    }

    MrpCfg {
        cancels,
        settle: knobs.settle,
        group_fabric: None,
        victims,
        closes,
        raw_msgs: Vec::new(),
        hold_until_us: 0,
        planted,
        workloads,
        handlers,
        sai,
        ppm,
        behaviour,
        net,
        sched,
        limit_us: 120 * SEC,
    }
}

/// The adversary
pub struct Adversary {
    cfg: NetCfg,
    planted: Vec<Planted>,
    seen: BTreeMap<(usize, u16, u32), u32>,
    pub fired: Rc<RefCell<BTreeMap<&'static str, u64>>>,
}

pub fn decode_with(planted: &[Planted], src: usize, dst: Option<usize>, bytes: &[u8]) -> (Option<Plain>, Option<Proto>, Option<usize>) {
    let Some(plain) = wire::decode_plain(bytes) else {
        return (None, None, None);
    };
    if !plain.is_secured() {
        let proto = wire::decode_proto(bytes, &plain, None, 0);
        return (Some(plain), proto, None);
    }
    let Some(dst) = dst else {
        return (Some(plain), None, None);
    };
    for (i, p) in planted.iter().enumerate() {
        let (sid, key) = if p.a == src && p.b == dst {
            (p.b_local_sid, &p.key_ab)
        } else if p.b == src && p.a == dst {
            (p.a_local_sid, &p.key_ba)
        } else {
            continue;
        };
        if sid == plain.sess_id {
            let proto = wire::decode_proto(bytes, &plain, Some(key), p.nonce_node(src));
            return (Some(plain), proto, Some(i));
        }
    }
    (Some(plain), None, None)
}

impl Adversary {
    pub fn new(cfg: NetCfg, planted: Vec<Planted>, fired: Rc<RefCell<BTreeMap<&'static str, u64>>>) -> Self {
        Adversary {
            cfg,
            planted,
            seen: BTreeMap::new(),
            fired,
        }
    }

    fn fire(&self, k: &'static str) {
        *self.fired.borrow_mut().entry(k).or_default() += 1;
    }
}

impl Policy for Adversary {
    fn decide(&mut self, rec: &TapSend) -> Vec<Fate> {
        let cfg = self.cfg.clone();
        let lat = |extra: u64| {
            cfg.latency_us
                + if cfg.jitter_us > 0 {
                    tape::range(0, cfg.jitter_us / 100) * 100
                } else {
                    0
                }
                + extra
        };
        let (plain, proto, _) = decode_with(&self.planted, rec.src, net::addr_node(&rec.dst), &rec.bytes);

        // Targeted modes first
        match &cfg.mode {
            AdvMode::Uniform => {}
            AdvMode::DropAcks => {
                if matches!(&proto, Some(p) if p.is_standalone_ack()) && tape::biased(2, 800) == 1 {
                    self.fire("drop_standalone_ack");
                    return vec![];
                }
            }
            AdvMode::DropFirstTx => {
                if let (Some(pl), Some(pr)) = (&plain, &proto) {
                    if pr.is_reliable() {
                        let n = self.seen.entry((rec.src, pl.sess_id, pl.ctr)).or_default();
                        *n += 1;
                        if *n == 1 {
                            self.fire("drop_first_tx");
                            return vec![];
                        }
                    }
                }
            }
            AdvMode::Blackout { src, from, until } => {
                if rec.src == *src && rec.time >= *from && rec.time < *until {
                    self.fire("blackout_drop");
                    return vec![];
                }
            }
            AdvMode::OneWay { src } => {
                if rec.src == *src {
                    self.fire("oneway_drop");
                    return vec![];
                }
            }
        }

        let benign = 1000u32.saturating_sub(cfg.drop_permille + cfg.dup_permille + cfg.hold_permille);
        match tape::weighted(&[benign, cfg.drop_permille, cfg.dup_permille, cfg.hold_permille]) {
            1 => {
                self.fire("drop");
                vec![]
            }
            2 => {
                self.fire("dup");
                let mut v = vec![Fate::deliver(lat(0))];
                let extra = 1 + tape::biased(2, 200);
                for _ in 0..extra {
                    v.push(Fate::deliver(lat(tape::range(0, cfg.hold_max_ms) * MS)));
                }
                v
            }
            3 => {
                self.fire("hold");
                vec![Fate::deliver(lat(tape::range(1, cfg.hold_max_ms.max(1)) * MS))]
            }
            _ => vec![Fate::deliver(lat(0))],
        }
    }
}

/// A decoded datagram of the history
#[derive(Clone, Debug)]
pub struct Dgram {
    pub id: u64,
    pub time: u64,
    pub local_time: u64,
    pub src: usize,
    pub src_inc: u32,
    pub dst: Option<usize>,
    pub bytes: Vec<u8>,
    pub plain: Option<Plain>,
    pub proto: Option<Proto>,
    pub planted: Option<usize>,
    pub copies: u32,
    /// (node, time, modified)
    pub consumed: Vec<(usize, u64, bool)>,
    /// App payload (wl, seq)
    pub app: Option<(u16, u8)>,
    /// Position of the send event in the tap (total order of network events)
    pub tap_idx: usize,
}

#[derive(Clone, Debug)]
pub struct XEvent {
    /// Length of the tap when the event was emitted: a transport verdict on a received datagram
    /// has `tap_pos == index of its Consume event + 1`
    pub tap_pos: usize,
    pub time: u64,
    pub node: usize,
    pub incarnation: u32,
    pub ev: Event,
}

pub struct MrpRun {
    pub cfg: MrpCfg,
    pub log: Vec<AppEv>,
    pub dgrams: Vec<Dgram>,
    pub tap: Vec<TapEvent>,
    pub events: Vec<XEvent>,
    pub snaps: Vec<Option<Snapshot>>,
    pub stop: StopReason,
    pub end_time: u64,
    pub end_local: Vec<u64>,
    pub exec: ExecStats,
    pub net: NetStats,
    pub fired: BTreeMap<&'static str, u64>,
    pub all_done: bool,
    /// Quiet window after the settle phase: (window start, window end, snapshots at the end)
    pub quiet: Option<(u64, u64, Vec<Option<Snapshot>>)>,
}

pub fn index_tap(planted: &[Planted], tap: &[TapEvent]) -> Vec<Dgram> {
    let mut dgrams: Vec<Dgram> = Vec::new();
    let mut by_id: BTreeMap<u64, usize> = BTreeMap::new();
    for (tap_idx, ev) in tap.iter().enumerate() {
        match ev {
            TapEvent::Send(s) => {
                let dst = net::addr_node(&s.dst);
                let (plain, proto, pl) = decode_with(planted, s.src, dst, &s.bytes);
                let app = proto.as_ref().and_then(|p| {
                    if p.proto_id == PROTO_APP {
                        parse_payload(&p.payload).map(|pp| (pp.wl, pp.seq))
                    } else {
                        None
                    }
                });
                by_id.insert(s.id, dgrams.len());
                dgrams.push(Dgram {
                    id: s.id,
                    time: s.time,
                    local_time: s.local_time,
                    src: s.src,
                    src_inc: s.src_incarnation,
                    dst,
                    bytes: s.bytes.clone(),
                    plain,
                    proto,
                    planted: pl,
                    copies: s.copies,
                    consumed: Vec::new(),
                    app,
                    tap_idx,
                });
            }
            TapEvent::Deliver { .. } => {}
            TapEvent::Consume {
                id,
                time,
                node,
                modified,
            } => {
                if let Some(i) = by_id.get(id) {
                    dgrams[*i].consumed.push((*node, *time, *modified));
                }
            }
        }
    }
    dgrams
}

/// Execute one run of the mrp world
pub fn drive(seed: u64, cfg: MrpCfg) -> MrpRun {
    let (net_cfg, planted) = (cfg.net.clone(), cfg.planted.clone());
    drive_with(seed, cfg, move |fired| Box::new(Adversary::new(net_cfg, planted, fired)))
}

/// Execute one run of the mrp world under the given network adversary
pub fn drive_with(
    seed: u64,
    cfg: MrpCfg,
    policy: impl FnOnce(Rc<RefCell<BTreeMap<&'static str, u64>>>) -> Box<dyn Policy>,
) -> MrpRun {
    let n_nodes = cfg.workloads.len();
    let fired = Rc::new(RefCell::new(BTreeMap::new()));
    let net = Net::new(policy(fired.clone()));
    CURRENT_NET.with(|c| *c.borrow_mut() = Some(net.clone()));
    let log: AppLog = Rc::new(RefCell::new(Vec::new()));
    let events: Rc<RefCell<Vec<XEvent>>> = Rc::new(RefCell::new(Vec::new()));
    let incs: Rc<RefCell<Vec<u32>>> = Rc::new(RefCell::new(vec![0; n_nodes]));
    {
        let events = events.clone();
        let incs = incs.clone();
        let net = net.clone();
        rs_matter::verif::set_sink(Some(Box::new(move |ev| {
            let node = kernel::cur_node().unwrap_or(usize::MAX);
            let incarnation = incs.borrow().get(node).copied().unwrap_or(0);
            events.borrow_mut().push(XEvent {
                tap_pos: net.tap_len(),
                time: kernel::now(),
                node,
                incarnation,
                ev,
            });
        })));
    }

    let active = Rc::new(Cell::new(
        cfg.workloads.iter().map(|l| l.len() as u32).sum::<u32>(),
    ));
    let busy = Rc::new(Cell::new(0u32));
    let calm = Rc::new(Cell::new(false));
    let probes_done = Rc::new(Cell::new(false));
    let snaps: Vec<Rc<RefCell<Option<Snapshot>>>> =
        (0..n_nodes).map(|_| Rc::new(RefCell::new(None))).collect();

    let mut exec = Exec::new(cfg.sched.clone());
    for node in 0..n_nodes {
        let (n, wake) = exec.add_node();
        assert_eq!(n, node);
        kernel::set_clock_ppm(node, cfg.ppm[node]);
        incs.borrow_mut()[node] = 1;
        let ctx = StackCtx {
            node,
            incarnation: 1,
            seed,
            net: net.clone(),
            wake,
            planted: cfg.planted.clone(),
            workloads: cfg.workloads[node].clone(),
            n_handlers: cfg.handlers[node],
            behaviour: cfg.behaviour[node].clone(),
            sai: cfg.sai[node],
            log: log.clone(),
            snap: snaps[node].clone(),
            active: active.clone(),
            busy_handlers: busy.clone(),
            calm: calm.clone(),
            probes_done: probes_done.clone(),
            group_fabric: cfg.group_fabric.clone(),
            victims: cfg.victims.clone(),
            closes: cfg.closes.iter().filter(|c| c.1 == node).map(|c| (c.0, c.2)).collect(),
        };
        exec.spawn(node, move |shared| stack_root(ctx, shared));
    }

    // The raw peer's datagrams
    for m in &cfg.raw_msgs {
        let p = &cfg.planted[m.planted];
        let bytes = raw_bytes(p, m);
        let dst = net::node_addr(p.a);
        let net = net.clone();
        let lat = cfg.net.latency_us.max(100);
        kernel::at(m.at_us, move || {
            net.inject(RAW_NODE, dst, &bytes, lat);
        });
    }

    // Run until the workloads are done and the stacks have settled, or the limit is hit
    let mut stop;
    let mut all_done = false;
    let mut cancels = cfg.cancels.clone();
    cancels.reverse();
    loop {
        let mut step = 100 * MS;
        if let Some((t, _, _)) = cancels.last() {
            step = step.min(t.saturating_sub(kernel::now()).max(1));
        }
        stop = exec.run_for(step);
        if matches!(stop, StopReason::MaxPolls) {
            break;
        }
        while matches!(cancels.last(), Some((t, _, _)) if *t <= kernel::now()) {
            let (_, node, h) = cancels.pop().unwrap();
            // Task 0 is the transport, handlers follow
            let n_h = cfg.handlers[node];
            exec.cancel_task(node, 1 + h % n_h);
            *fired.borrow_mut().entry("cancel_handler").or_default() += 1;
        }
        if active.get() == 0 && busy.get() == 0 && kernel::now() >= cfg.hold_until_us {
            let mut settled = true;
            for node in 0..n_nodes {
                exec.probe(node);
                if let Some(s) = snaps[node].borrow().as_ref() {
                    if s.sessions.iter().any(|s| !s.exchanges.is_empty())
                        || s.tx_slot != rs_matter::verif::SlotSnap::Empty
                        || s.rx_slot != rs_matter::verif::SlotSnap::Empty
                    {
                        settled = false;
                    }
                }
                if net.inbox_len(node) > 0 {
                    settled = false;
                }
            }
            if settled {
                all_done = true;
                break;
            }
        }
        if kernel::now() >= cfg.limit_us {
            break;
        }
    }
    for node in 0..n_nodes {
        exec.probe(node);
    }
    let main_snaps: Vec<Option<Snapshot>> = snaps.iter().map(|s| s.borrow().clone()).collect();

    // Settle phase: faults stop, the longest retransmission ladder and receive timeout may run
    // out, then a quiet window is observed
    let mut quiet = None;
    if cfg.settle && !matches!(stop, StopReason::MaxPolls) {
        net.set_policy(Box::new(net::Benign(1_000)));
        let max_base = cfg.sai.iter().map(|s| s.filter(|v| *v > 0).unwrap_or(300)).max().unwrap_or(300) as u64;
        // ladder (6 intervals, max jitter) + accept timeout + slack
        let ladder: u64 = (0..6u32)
            .map(|k| (max_base as f64 * 1.1 * 1.6f64.powi(k.saturating_sub(1) as i32) * 1.25) as u64 + 1)
            .sum();
        // RX timeouts of exchanges waiting for a peer which gave up: ladder + 30 s processing allowance
        exec.cfg.max_time = u64::MAX / 2;
        // Wait for every application task to finish (receive timeouts can take minutes of
        // simulated time), then for the longest ladder + accept timeout
        let cap = kernel::now() + 900 * SEC;
        let mut apps_done = false;
        'settle: loop {
            loop {
                stop = exec.run_for(500 * MS);
                if matches!(stop, StopReason::MaxPolls) || kernel::now() >= cap {
                    break 'settle;
                }
                if active.get() == 0 && busy.get() == 0 {
                    break;
                }
            }
            // Everything idle: now the longest ladder / held datagram may run out. If that wakes an
            // application again (late datagram opening a new exchange), start over.
            stop = exec.run_for((ladder + 9_000) * MS);
            if matches!(stop, StopReason::MaxPolls) {
                break;
            }
            if active.get() == 0 && busy.get() == 0 {
                apps_done = true;
                break;
            }
        }
        if apps_done && !matches!(stop, StopReason::MaxPolls) {
            let w0 = kernel::now();
            stop = exec.run_for(5 * SEC);
            for node in 0..n_nodes {
                exec.probe(node);
            }
            quiet = Some((w0, kernel::now(), snaps.iter().map(|s| s.borrow().clone()).collect()));
            // Probe: a fresh request on every planted session must still be served
            calm.set(true);
            let deadline = kernel::now() + cfg.planted.len() as u64 * (2 * ladder + 40_000) * MS;
            while !probes_done.get() && kernel::now() < deadline {
                stop = exec.run_for(200 * MS);
                if matches!(stop, StopReason::MaxPolls) {
                    break;
                }
            }
        }
    }
    let end_time = kernel::now();
    let end_local: Vec<u64> = (0..n_nodes).map(kernel::node_local_now).collect();
    let exec_stats = exec.stats.clone();
    exec.shutdown();
    drop(exec);
    rs_matter::verif::set_sink(None);
    CURRENT_NET.with(|c| *c.borrow_mut() = None);

    let tap = net.take_tap();
    let dgrams = index_tap(&cfg.planted, &tap);
    let log = std::mem::take(&mut *log.borrow_mut());
    let events = std::mem::take(&mut *events.borrow_mut());
    // (idle sessions evicted while the workloads ran count as injected events)
    let evicted = cfg.closes.iter().filter(|c| c.0 * 1000 <= end_time).count() as u64;
    if evicted > 0 {
        *fired.borrow_mut().entry("idle_session_evicted").or_default() += evicted;
    }
    let fired = fired.borrow().clone();
    MrpRun {
        cfg,
        log,
        dgrams,
        tap,
        events,
        snaps: main_snaps,
        stop,
        end_time,
        end_local,
        exec: exec_stats,
        net: net.stats(),
        fired,
        all_done,
        quiet,
    }
}
