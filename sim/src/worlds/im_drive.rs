//! Drives one run of the im world and indexes its history.

use std::cell::{Cell, RefCell};
use std::collections::BTreeMap;
use std::rc::Rc;

use rs_matter::verif::{Snapshot, SubsSnapshot};

use crate::kernel::{self, Exec, ExecStats, SchedCfg, StopReason, MS, SEC};
use crate::kv::SimKv;
use crate::net::{self, Net, NetStats, TapEvent};
use crate::worlds::im::*;
use crate::worlds::mrp::Planted;
use crate::worlds::mrp_drive::{index_tap, Adversary, Dgram, NetCfg};

#[derive(Clone, Debug)]
pub struct CtlCfg {
    pub scripts: Vec<Vec<CtlStep>>,
    pub report_behaviour: Vec<RepB>,
    pub n_report_handlers: usize,
}

#[derive(Clone, Debug)]
pub struct ImCfg {
    pub comp: Composition,
    pub pairs: Vec<Pair>,
    pub replant: bool,
    pub dev_script: Vec<DevStep>,
    pub dev_handlers: usize,
    pub suppress_startup_event: bool,
    /// Controller `i` is node `i + 1`
    pub controllers: Vec<CtlCfg>,
    pub net: NetCfg,
    pub sched: SchedCfg,
    /// Faults stop and handlers behave from here on (None: never)
    pub calm_at_us: Option<u64>,
    /// The run ends at this time at the latest
    pub limit_us: u64,
    /// End as soon as every script has finished (runs without a subscription phase)
    pub end_when_done: bool,
    /// Device restarts: (time, down time)
    pub restarts: Vec<(u64, u64)>,
}

#[derive(Clone, Debug, Default)]
pub struct OpRec {
    pub node: usize,
    pub start: u64,
    pub end: Option<u64>,
    pub result: Option<u16>,
    /// (time, opcode, payload)
    pub rx: Vec<(u64, u8, Vec<u8>)>,
    pub timed_ack: Option<u64>,
}

#[derive(Clone, Debug, Default)]
pub struct ReportRec {
    pub node: usize,
    pub hseq: u32,
    pub chunks: Vec<(u64, Vec<u8>)>,
    pub behaviour: Option<&'static str>,
}

pub struct ImRun {
    pub cfg: ImCfg,
    pub log: Vec<ImEv>,
    pub ops: BTreeMap<u16, OpRec>,
    pub reports: Vec<ReportRec>,
    pub dgrams: Vec<Dgram>,
    pub tap: Vec<TapEvent>,
    pub planted: Vec<Planted>,
    pub snaps: Vec<Option<Snapshot>>,
    pub subs: Option<SubsSnapshot>,
    /// Snapshots of the subscription table taken every second of simulated time
    pub subs_series: Vec<(u64, SubsSnapshot)>,
    pub final_values: BTreeMap<(u16, u32, u32), u32>,
    pub final_enabled: Vec<bool>,
    pub stop: StopReason,
    pub end_time: u64,
    pub calm_time: Option<u64>,
    pub exec: ExecStats,
    pub net: NetStats,
    pub fired: BTreeMap<&'static str, u64>,
    pub scripts_done: bool,
    pub dev_script_done: bool,
    pub device_incarnations: u32,
    pub kv_ops: usize,
}

pub fn drive(seed: u64, cfg: ImCfg) -> ImRun {
    let n_nodes = 1 + cfg.controllers.len();
    let fired = Rc::new(RefCell::new(BTreeMap::new()));
    let dir = Rc::new(SessDir {
        seed,
        pairs: cfg.pairs.clone(),
        generation: RefCell::new(vec![0; cfg.pairs.len()]),
        all: RefCell::new(Vec::new()),
        replant: cfg.replant,
    });
    let initial: Vec<Planted> = (0..cfg.pairs.len()).map(|i| dir.planted(i, 0)).collect();
    let net = Net::new(Box::new(Adversary::new(cfg.net.clone(), initial, fired.clone())));
    let log: ImLog = Rc::new(RefCell::new(Vec::new()));

    let mut values = BTreeMap::new();
    for e in &cfg.comp.endpoints {
        for c in &e.clusters {
            for a in &c.attrs {
                values.insert((e.id, c.id, a.id), 1u32);
            }
        }
    }
    let state = Rc::new(RefCell::new(DevState {
        values,
        enabled: vec![true; cfg.comp.endpoints.len()],
        reads: 0,
        next_marker: 0,
    }));
    let comp = Rc::new(cfg.comp.clone());
    let kv = SimKv::new();
    let script_pos = Rc::new(Cell::new(0usize));
    let script_done = Rc::new(Cell::new(false));
    let active = Rc::new(Cell::new(
        cfg.controllers.iter().map(|c| c.scripts.len() as u32).sum::<u32>(),
    ));
    let calm = Rc::new(Cell::new(false));
    let snaps: Vec<Rc<RefCell<Option<Snapshot>>>> =
        (0..n_nodes).map(|_| Rc::new(RefCell::new(None))).collect();
    let subs: Rc<RefCell<Option<SubsSnapshot>>> = Rc::new(RefCell::new(None));

    let mut exec = Exec::new(cfg.sched.clone());
    let mut wakes = Vec::new();
    for node in 0..n_nodes {
        let (n, wake) = exec.add_node();
        assert_eq!(n, node);
        wakes.push(wake);
    }
    let spawn_device = |exec: &mut Exec, inc: u32| {
        let ctx = DeviceCtx {
            node: 0,
            incarnation: inc,
            seed,
            net: net.clone(),
            wake: wakes[0].clone(),
            comp: comp.clone(),
            dir: dir.clone(),
            script: cfg.dev_script.clone(),
            script_pos: script_pos.clone(),
            n_handlers: cfg.dev_handlers,
            log: log.clone(),
            snap: snaps[0].clone(),
            subs: subs.clone(),
            state: state.clone(),
            kv: kv.clone(),
            suppress_startup_event: cfg.suppress_startup_event,
            script_done: script_done.clone(),
        };
        exec.spawn(0, move |shared| device_root(ctx, shared));
    };
    spawn_device(&mut exec, 1);
    for (i, c) in cfg.controllers.iter().enumerate() {
        let node = i + 1;
        let ctx = ControllerCtx {
            node,
            incarnation: 1,
            seed,
            net: net.clone(),
            wake: wakes[node].clone(),
            dir: dir.clone(),
            scripts: c.scripts.clone(),
            report_behaviour: c.report_behaviour.clone(),
            n_report_handlers: c.n_report_handlers,
            log: log.clone(),
            snap: snaps[node].clone(),
            active: active.clone(),
            calm: calm.clone(),
            hseq: Rc::new(Cell::new(0)),
        };
        exec.spawn(node, move |shared| controller_root(ctx, shared));
    }

    let mut stop;
    let mut restarts = cfg.restarts.clone();
    restarts.sort();
    restarts.reverse();
    let mut pending_up: Option<u64> = None;
    let mut dev_inc = 1;
    let mut calm_time = None;
    let mut subs_series = Vec::new();
    let mut next_series = SEC;
    loop {
        let mut step = 250 * MS;
        let now = kernel::now();
        if let Some((t, _)) = restarts.last() {
            step = step.min(t.saturating_sub(now).max(1));
        }
        if let Some(t) = pending_up {
            step = step.min(t.saturating_sub(now).max(1));
        }
        if let Some(t) = cfg.calm_at_us {
            if calm_time.is_none() {
                step = step.min(t.saturating_sub(now).max(1));
            }
        }
        stop = exec.run_for(step);
        if matches!(stop, StopReason::MaxPolls) {
            break;
        }
        let now = kernel::now();
        if calm_time.is_none() && matches!(cfg.calm_at_us, Some(t) if now >= t) {
            net.set_policy(Box::new(net::Benign(1_000)));
            calm.set(true);
            calm_time = Some(now);
            restarts.clear();
        }
        while matches!(restarts.last(), Some((t, _)) if *t <= now) {
            let (_, down) = restarts.pop().unwrap();
            if exec.is_up(0) {
                exec.kill(0);
                *fired.borrow_mut().entry("device_restart").or_default() += 1;
                pending_up = Some(now + down);
            }
        }
        if matches!(pending_up, Some(t) if t <= now) {
            pending_up = None;
            dev_inc += 1;
            spawn_device(&mut exec, dev_inc);
        }
        if now >= next_series {
            next_series = now + SEC;
            if exec.is_up(0) {
                exec.probe(0);
                if let Some(s) = subs.borrow().as_ref() {
                    if subs_series.last().map(|(_, l): &(u64, SubsSnapshot)| l != s).unwrap_or(true) {
                        subs_series.push((now, s.clone()));
                    }
                }
            }
        }
        if cfg.end_when_done && active.get() == 0 {
            // Let the last acknowledgements drain
            stop = exec.run_for(2 * SEC);
            break;
        }
        if now >= cfg.limit_us {
            break;
        }
    }
    for node in 0..n_nodes {
        exec.probe(node);
    }
    let end_time = kernel::now();
    let exec_stats = exec.stats.clone();
    exec.shutdown();
    drop(exec);

    let tap = net.take_tap();
    let planted: Vec<Planted> = dir.all.borrow().iter().map(|(_, _, p)| p.clone()).collect();
    let dgrams = index_tap(&planted, &tap);
    let log = std::mem::take(&mut *log.borrow_mut());

    // Index
    let mut ops: BTreeMap<u16, OpRec> = BTreeMap::new();
    let mut reports: Vec<ReportRec> = Vec::new();
    for e in &log {
        match &e.kind {
            ImKind::OpStart { op } => {
                ops.insert(
                    *op,
                    OpRec {
                        node: e.node,
                        start: e.time,
                        ..Default::default()
                    },
                );
            }
            ImKind::OpEnd { op, result } => {
                if let Some(o) = ops.get_mut(op) {
                    o.end = Some(e.time);
                    o.result = Some(*result);
                }
            }
            ImKind::TimedAck { op } => {
                if let Some(o) = ops.get_mut(op) {
                    o.timed_ack = Some(e.time);
                }
            }
            ImKind::Rx { op, hseq, opcode, payload, .. } => {
                if *op == 0xffff {
                    if *opcode == OP_REPORT {
                        let idx = reports.iter().position(|r| r.node == e.node && r.hseq == *hseq);
                        let idx = match idx {
                            Some(i) => i,
                            None => {
                                reports.push(ReportRec {
                                    node: e.node,
                                    hseq: *hseq,
                                    ..Default::default()
                                });
                                reports.len() - 1
                            }
                        };
                        reports[idx].chunks.push((e.time, payload.clone()));
                    }
                } else if let Some(o) = ops.get_mut(op) {
                    o.rx.push((e.time, *opcode, payload.clone()));
                }
            }
            ImKind::Behave { hseq, what } => {
                if let Some(r) = reports.iter_mut().find(|r| r.node == e.node && r.hseq == *hseq) {
                    r.behaviour = Some(what);
                }
            }
            _ => {}
        }
    }
    let final_values = state.borrow().values.clone();
    let final_enabled = state.borrow().enabled.clone();
    let subs_final = subs.borrow().clone();
    let fired_final = fired.borrow().clone();
    let snaps_final = snaps.iter().map(|s| s.borrow().clone()).collect();
    ImRun {
        final_values,
        final_enabled,
        cfg,
        log,
        ops,
        reports,
        dgrams,
        tap,
        planted,
        snaps: snaps_final,
        subs: subs_final,
        subs_series,
        stop,
        end_time,
        calm_time,
        exec: exec_stats,
        net: net.stats(),
        fired: fired_final,
        scripts_done: active.get() == 0,
        dev_script_done: script_done.get(),
        device_incarnations: dev_inc,
        kv_ops: kv.mut_ops(),
    }
}
