//! Independent decoder / encoder of Matter message framing (written against the Matter spec and
//! the `aes`/`ccm` crates directly -- does *not* call rs-matter's codec).

use aes::Aes128;
use ccm::aead::generic_array::GenericArray;
use ccm::aead::{AeadInPlace, KeyInit};
use ccm::consts::{U13, U16};
use ccm::Ccm;

type Aes128Ccm = Ccm<Aes128, U16, U13>;

pub const PROTO_SC: u16 = 0x0000;
pub const PROTO_IM: u16 = 0x0001;
pub const OP_STANDALONE_ACK: u8 = 0x10;
pub const OP_STATUS_REPORT: u8 = 0x40;

pub const XF_INITIATOR: u8 = 0x01;
pub const XF_ACK: u8 = 0x02;
pub const XF_RELIABLE: u8 = 0x04;
pub const XF_SECEX: u8 = 0x08;
pub const XF_VENDOR: u8 = 0x10;

#[derive(Clone, Debug, PartialEq, Eq)]
pub struct Plain {
    pub flags: u8,
    pub sess_id: u16,
    pub sec_flags: u8,
    pub ctr: u32,
    pub src: Option<u64>,
    pub dst_node: Option<u64>,
    pub dst_group: Option<u16>,
    pub len: usize,
}

#[derive(Clone, Debug, PartialEq, Eq)]
pub struct Proto {
    pub exch_flags: u8,
    pub opcode: u8,
    pub exch_id: u16,
    pub proto_id: u16,
    pub vendor: Option<u16>,
    pub ack: Option<u32>,
    pub payload: Vec<u8>,
}

impl Proto {
    pub fn is_initiator(&self) -> bool {
        self.exch_flags & XF_INITIATOR != 0
    }
    pub fn is_reliable(&self) -> bool {
        self.exch_flags & XF_RELIABLE != 0
    }
    pub fn is_standalone_ack(&self) -> bool {
        self.proto_id == PROTO_SC && self.opcode == OP_STANDALONE_ACK
    }
}

impl Plain {
    pub fn is_group(&self) -> bool {
        self.sec_flags & 0x01 != 0
    }
    pub fn is_secured(&self) -> bool {
        self.sess_id != 0 || self.is_group()
    }
}

pub fn decode_plain(b: &[u8]) -> Option<Plain> {
    if b.len() < 8 {
        return None;
    }
    let flags = b[0];
    let sess_id = u16::from_le_bytes([b[1], b[2]]);
    let sec_flags = b[3];
    let ctr = u32::from_le_bytes([b[4], b[5], b[6], b[7]]);
    let mut off = 8;
    let mut src = None;
    if flags & 0x04 != 0 {
        src = Some(u64::from_le_bytes(b.get(off..off + 8)?.try_into().ok()?));
        off += 8;
    }
    let mut dst_node = None;
    let mut dst_group = None;
    match flags & 0x03 {
        1 => {
            dst_node = Some(u64::from_le_bytes(b.get(off..off + 8)?.try_into().ok()?));
            off += 8;
        }
        2 => {
            dst_group = Some(u16::from_le_bytes(b.get(off..off + 2)?.try_into().ok()?));
            off += 2;
        }
        _ => {}
    }
    Some(Plain {
        flags,
        sess_id,
        sec_flags,
        ctr,
        src,
        dst_node,
        dst_group,
        len: off,
    })
}

fn nonce(sec_flags: u8, ctr: u32, node_id: u64) -> [u8; 13] {
    let mut n = [0u8; 13];
    n[0] = sec_flags;
    n[1..5].copy_from_slice(&ctr.to_le_bytes());
    n[5..13].copy_from_slice(&node_id.to_le_bytes());
    n
}

fn parse_proto(b: &[u8]) -> Option<Proto> {
    if b.len() < 6 {
        return None;
    }
    let exch_flags = b[0];
    let opcode = b[1];
    let exch_id = u16::from_le_bytes([b[2], b[3]]);
    let proto_id = u16::from_le_bytes([b[4], b[5]]);
    let mut off = 6;
    let mut vendor = None;
    if exch_flags & XF_VENDOR != 0 {
        vendor = Some(u16::from_le_bytes(b.get(off..off + 2)?.try_into().ok()?));
        off += 2;
    }
    let mut ack = None;
    if exch_flags & XF_ACK != 0 {
        ack = Some(u32::from_le_bytes(b.get(off..off + 4)?.try_into().ok()?));
        off += 4;
    }
    Some(Proto {
        exch_flags,
        opcode,
        exch_id,
        proto_id,
        vendor,
        ack,
        payload: b[off..].to_vec(),
    })
}

/// Decode the protocol header + payload. `key` = None for unsecured messages.
/// `nonce_node` is the source node id used in the nonce (0 for PASE).
pub fn decode_proto(b: &[u8], plain: &Plain, key: Option<&[u8; 16]>, nonce_node: u64) -> Option<Proto> {
    let body = b.get(plain.len..)?;
    match key {
        None => parse_proto(body),
        Some(key) => {
            if body.len() < 16 {
                return None;
            }
            let (ct, tag) = body.split_at(body.len() - 16);
            let mut buf = ct.to_vec();
            let cipher = Aes128Ccm::new(GenericArray::from_slice(key));
            let n = nonce(plain.sec_flags, plain.ctr, nonce_node);
            cipher
                .decrypt_in_place_detached(
                    GenericArray::from_slice(&n),
                    &b[..plain.len],
                    &mut buf,
                    GenericArray::from_slice(tag),
                )
                .ok()?;
            parse_proto(&buf)
        }
    }
}

/// Encode a message (harness-made traffic: authenticated raw peer)
pub fn encode(
    sess_id: u16,
    sec_flags: u8,
    ctr: u32,
    src: Option<u64>,
    dst_node: Option<u64>,
    proto: &Proto,
    key: Option<&[u8; 16]>,
    nonce_node: u64,
) -> Vec<u8> {
    let mut out = Vec::new();
    let mut flags = 0u8;
    if src.is_some() {
        flags |= 0x04;
    }
    if dst_node.is_some() {
        flags |= 0x01;
    }
    out.push(flags);
    out.extend_from_slice(&sess_id.to_le_bytes());
    out.push(sec_flags);
    out.extend_from_slice(&ctr.to_le_bytes());
    if let Some(s) = src {
        out.extend_from_slice(&s.to_le_bytes());
    }
    if let Some(d) = dst_node {
        out.extend_from_slice(&d.to_le_bytes());
    }
    let hdr_len = out.len();

    let mut body = Vec::new();
    let mut xf = proto.exch_flags & !(XF_ACK | XF_VENDOR);
    if proto.ack.is_some() {
        xf |= XF_ACK;
    }
    if proto.vendor.is_some() {
        xf |= XF_VENDOR;
    }
    body.push(xf);
    body.push(proto.opcode);
    body.extend_from_slice(&proto.exch_id.to_le_bytes());
    body.extend_from_slice(&proto.proto_id.to_le_bytes());
    if let Some(v) = proto.vendor {
        body.extend_from_slice(&v.to_le_bytes());
    }
    if let Some(a) = proto.ack {
        body.extend_from_slice(&a.to_le_bytes());
    }
    body.extend_from_slice(&proto.payload);

    if let Some(key) = key {
        let cipher = Aes128Ccm::new(GenericArray::from_slice(key));
        let n = nonce(sec_flags, ctr, nonce_node);
        let tag = cipher
            .encrypt_in_place_detached(GenericArray::from_slice(&n), &out[..hdr_len], &mut body)
            .expect("encrypt");
        out.extend_from_slice(&body);
        out.extend_from_slice(&tag);
    } else {
        out.extend_from_slice(&body);
    }
    out
}
