//! Batch runner: seeds -> runs on all cores -> violations (shrunk, replay file) -> evidence.

use std::collections::{BTreeMap, BTreeSet};
use std::panic::{catch_unwind, AssertUnwindSafe};
use std::sync::atomic::{AtomicBool, AtomicU64, Ordering};
use std::sync::Mutex;
use std::time::{Duration, Instant};

use serde_json::{json, Value};

use crate::kernel;
use crate::tape::{self, Tape};

#[derive(Clone, Debug)]
pub struct Violation {
    pub oracle: String,
    pub detail: String,
}

#[derive(Default, Clone, Debug)]
pub struct Outcome {
    pub violations: Vec<Violation>,
    /// Counters: fired faults, probes, workload operations
    pub counters: BTreeMap<String, u64>,
    pub sim_time_us: u64,
    /// The run did real work under a non-trivial schedule/fault sequence
    pub nontrivial: bool,
    /// A written-out description of the run (config + first events), for evidence samples
    pub sample: Option<Value>,
    /// Abstract state signature(s) reached (for the "states" measure)
    pub state_sigs: Vec<u64>,
}

impl Outcome {
    pub fn count(&mut self, key: &str, n: u64) {
        if n > 0 {
            *self.counters.entry(key.to_string()).or_default() += n;
        }
    }

    pub fn violate(&mut self, oracle: &str, detail: String) {
        // One violation per oracle and run is enough (the first one, in history order)
        if self.violations.iter().any(|v| v.oracle == oracle) {
            *self.counters.entry(format!("repeat_{oracle}")).or_default() += 1;
            return;
        }
        self.violations.push(Violation {
            oracle: oracle.to_string(),
            detail,
        });
    }
}

pub trait Scenario: Sync {
    fn property(&self) -> &'static str;
    fn name(&self) -> &'static str;
    /// Execute one run. All nondeterminism must come from the thread-local tape.
    /// `seed` is only for deriving node crypto RNG streams.
    fn run(&self, seed: u64) -> Outcome;
}

pub struct RunResult {
    pub outcome: Outcome,
    pub tape: Vec<u32>,
    pub nonzero: u64,
    pub trace_hash: u64,
    pub trace_events: u64,
    pub trace_lines: Vec<String>,
    pub panicked: Option<String>,
}

fn panic_message(e: Box<dyn std::any::Any + Send>) -> String {
    if let Some(s) = e.downcast_ref::<&str>() {
        s.to_string()
    } else if let Some(s) = e.downcast_ref::<String>() {
        s.clone()
    } else {
        "panic".to_string()
    }
}

thread_local! {
    static LAST_PANIC_LOC: std::cell::RefCell<Option<String>> = const { std::cell::RefCell::new(None) };
}

pub fn install_panic_hook() {
    std::panic::set_hook(Box::new(|info| {
        let loc = info
            .location()
            .map(|l| format!("{}:{}", l.file(), l.line()))
            .unwrap_or_default();
        LAST_PANIC_LOC.with(|l| *l.borrow_mut() = Some(loc));
        if std::env::var_os("VERIF_PANIC_VERBOSE").is_some() {
            eprintln!("panic: {info}");
        }
    }));
}

/// Execute one run of `sc` with the given tape (generate or replay).
pub fn execute(sc: &dyn Scenario, seed: u64, tape: Tape, keep_trace: bool) -> RunResult {
    kernel::reset();
    kernel::trace_keep(keep_trace);
    tape::install(tape);
    rs_matter::verif::set_sink(None);
    LAST_PANIC_LOC.with(|l| *l.borrow_mut() = None);

    let res = catch_unwind(AssertUnwindSafe(|| sc.run(seed)));

    rs_matter::verif::set_sink(None);
    let (rec, nonzero) = tape::take_record();
    let (trace_hash, trace_events, trace_lines) = kernel::trace_result();
    let (outcome, panicked) = match res {
        Ok(mut o) => {
            // The scenario is part of a violation's identity (known findings are per history class)
            for v in &mut o.violations {
                v.detail = format!("[{}] {}", sc.name(), v.detail);
            }
            (o, None)
        }
        Err(e) => {
            let loc = LAST_PANIC_LOC.with(|l| l.borrow_mut().take()).unwrap_or_default();
            let msg = format!("{} at {}", panic_message(e), loc);
            let mut o = Outcome::default();
            // Panics inside the harness are harness errors, panics inside rs-matter are violations
            let in_harness = loc.contains("/verif/") || loc.starts_with("src/");
            o.violate(
                if in_harness { "harness-panic" } else { "panic" },
                msg.clone(),
            );
            (o, Some(msg))
        }
    };
    // Leave no state behind
    kernel::reset();
    RunResult {
        outcome,
        tape: rec,
        nonzero,
        trace_hash,
        trace_events,
        trace_lines,
        panicked,
    }
}

pub fn run_seed(base_seed: u64, run: u64) -> u64 {
    let mut x = base_seed ^ run.wrapping_mul(0x9E37_79B9_7F4A_7C15);
    x ^= x >> 29;
    x = x.wrapping_mul(0xBF58_476D_1CE4_E5B9);
    x ^ (x >> 32)
}

/// Shrink `tape` while the same oracle keeps firing. Bounded by `budget`.
pub fn shrink(
    sc: &dyn Scenario,
    seed: u64,
    tape: Vec<u32>,
    oracle: &str,
    budget: Duration,
    is_known: &dyn Fn(&Violation) -> bool,
) -> Vec<u32> {
    let start = Instant::now();
    // Same violation class: same oracle, and not one of the listed known findings
    let fails = |t: &Vec<u32>| -> bool {
        let r = execute(sc, seed, Tape::replay(t.clone()), false);
        r.outcome.violations.iter().any(|v| v.oracle == oracle && !is_known(v))
    };
    let mut cur = tape;
    // Trim trailing zeros (reading past the end yields 0 anyway)
    while cur.last() == Some(&0) {
        cur.pop();
    }
    let mut improved = true;
    while improved && start.elapsed() < budget {
        improved = false;
        // 1. delete blocks
        let mut size = (cur.len() / 2).max(1);
        while size >= 1 && start.elapsed() < budget {
            let mut i = 0;
            while i + size <= cur.len() && start.elapsed() < budget {
                let mut cand = cur.clone();
                cand.drain(i..i + size);
                if fails(&cand) {
                    cur = cand;
                    improved = true;
                } else {
                    i += size;
                }
            }
            if size == 1 {
                break;
            }
            size /= 2;
        }
        // 2. zero blocks
        let mut size = (cur.len() / 2).max(1);
        while size >= 1 && start.elapsed() < budget {
            let mut i = 0;
            while i + size <= cur.len() && start.elapsed() < budget {
                if cur[i..i + size].iter().any(|v| *v != 0) {
                    let mut cand = cur.clone();
                    for v in &mut cand[i..i + size] {
                        *v = 0;
                    }
                    if fails(&cand) {
                        cur = cand;
                        improved = true;
                    }
                }
                i += size;
            }
            if size == 1 {
                break;
            }
            size /= 2;
        }
        // 3. lower single values
        for i in 0..cur.len() {
            if start.elapsed() >= budget {
                break;
            }
            while cur[i] > 0 {
                let mut cand = cur.clone();
                cand[i] = if cur[i] > 8 { cur[i] / 2 } else { cur[i] - 1 };
                if fails(&cand) {
                    cur = cand;
                    improved = true;
                } else {
                    break;
                }
            }
        }
        while cur.last() == Some(&0) {
            cur.pop();
        }
    }
    cur
}

pub struct Budget {
    pub max_runs: u64,
    pub max_wall: Duration,
}

pub struct BatchReport {
    pub runs: u64,
    pub wall: Duration,
    pub sim_time_us: u64,
    pub counters: BTreeMap<String, u64>,
    pub distinct_traces: u64,
    pub distinct_nontrivial: u64,
    pub distinct_states: u64,
    pub samples: Vec<Value>,
    pub violations: Vec<(u64, u64, Violation, Vec<u32>)>, // (seed, run, violation, tape)
    pub bounded_runs: u64,
    /// Violations matching a listed known finding: "oracle what" -> count
    pub known_hits: BTreeMap<String, u64>,
}

/// Run `sc` over run indices 0.. on `threads` threads until the budget is used up or a
/// violation is found (collection stops at the first few violations).
/// Kernel thread id of the calling thread (Linux: `/proc/thread-self` -> `<pid>/task/<tid>`)
fn own_tid() -> Option<u64> {
    let link = std::fs::read_link("/proc/thread-self").ok()?;
    link.file_name()?.to_str()?.parse().ok()
}

/// CPU time (user + system) consumed so far by thread `tid` of this process, in milliseconds
fn thread_cpu_ms(tid: u64) -> Option<u64> {
    let stat = std::fs::read_to_string(format!("/proc/self/task/{tid}/stat")).ok()?;
    // Fields after the parenthesised command name; utime and stime are the 14th and 15th fields
    let rest = &stat[stat.rfind(')')? + 1..];
    let f: Vec<&str> = rest.split_whitespace().collect();
    let utime: u64 = f.get(11)?.parse().ok()?;
    let stime: u64 = f.get(12)?.parse().ok()?;
    // Clock ticks are 100 per second on Linux (USER_HZ)
    Some((utime + stime) * 10)
}

pub fn batch(
    sc: &dyn Scenario,
    base_seed: u64,
    budget: &Budget,
    threads: usize,
    is_known: &(dyn Fn(&Violation) -> Option<String> + Sync),
    on_hang: &(dyn Fn(u64, u64, u64) + Sync),
) -> BatchReport {
    let next = AtomicU64::new(0);
    let stop = AtomicBool::new(false);
    let start = Instant::now();
    // Watchdog state per worker: run index + 1 currently executing (0 = none), and when it started
    let cur_run: Vec<AtomicU64> = (0..threads).map(|_| AtomicU64::new(0)).collect();
    let cur_since: Vec<AtomicU64> = (0..threads).map(|_| AtomicU64::new(0)).collect();
    // Kernel thread id of each worker (for its CPU time)
    let worker_tid: Vec<AtomicU64> = (0..threads).map(|_| AtomicU64::new(0)).collect();
    let workers_done = AtomicU64::new(0);
    let run_timeout_ms = std::env::var("VERIF_RUN_TIMEOUT_S").ok().and_then(|v| v.parse::<u64>().ok()).unwrap_or(120) * 1000;

    struct Acc {
        runs: u64,
        sim_time_us: u64,
        counters: BTreeMap<String, u64>,
        traces: BTreeSet<u64>,
        nontrivial: BTreeSet<u64>,
        states: BTreeSet<u64>,
        samples: Vec<(u64, Value)>,
        violations: Vec<(u64, u64, Violation, Vec<u32>)>,
        known: BTreeMap<String, u64>,
    }
    let acc = Mutex::new(Acc {
        runs: 0,
        sim_time_us: 0,
        counters: BTreeMap::new(),
        traces: BTreeSet::new(),
        nontrivial: BTreeSet::new(),
        states: BTreeSet::new(),
        samples: Vec::new(),
        violations: Vec::new(),
        known: BTreeMap::new(),
    });

    std::thread::scope(|s| {
        // A run which does not come back (a loop inside one poll of the code under test cannot be
        // bounded by the step limit) is reported by the watchdog, which then ends the process.
        // The limit is CPU time of the worker thread spent on that one run (sampled by the
        // watchdog), not wall-clock time: a stalled or overloaded machine makes runs slow, it does
        // not make them burn minutes of CPU.
        s.spawn(|| {
            let mut seen_run: Vec<u64> = vec![0; threads];
            let mut cpu_at_seen: Vec<u64> = vec![0; threads];
            loop {
                std::thread::sleep(Duration::from_millis(250));
                if workers_done.load(Ordering::Relaxed) as usize >= threads {
                    break;
                }
                for w in 0..threads {
                    let r = cur_run[w].load(Ordering::Relaxed);
                    let tid = worker_tid[w].load(Ordering::Relaxed);
                    if r == 0 || tid == 0 {
                        seen_run[w] = 0;
                        continue;
                    }
                    let Some(cpu_ms) = thread_cpu_ms(tid) else {
                        continue;
                    };
                    if seen_run[w] != r {
                        seen_run[w] = r;
                        cpu_at_seen[w] = cpu_ms;
                    } else if cpu_ms.saturating_sub(cpu_at_seen[w]) > run_timeout_ms {
                        on_hang(run_seed(base_seed, r - 1), r - 1, run_timeout_ms / 1000);
                    }
                }
            }
        });
        for w in 0..threads {
            let (cur_run, cur_since, workers_done, worker_tid) = (&cur_run, &cur_since, &workers_done, &worker_tid);
            let (next, stop, acc) = (&next, &stop, &acc);
            std::thread::Builder::new()
                .stack_size(256 << 20)
                .spawn_scoped(s, move || {
                    worker_tid[w].store(own_tid().unwrap_or(0), Ordering::Relaxed);
                    let mut local = Acc {
                        runs: 0,
                        sim_time_us: 0,
                        counters: BTreeMap::new(),
                        traces: BTreeSet::new(),
                        nontrivial: BTreeSet::new(),
                        states: BTreeSet::new(),
                        samples: Vec::new(),
                        violations: Vec::new(),
                        known: BTreeMap::new(),
                    };
                    loop {
                        if stop.load(Ordering::Relaxed) || start.elapsed() >= budget.max_wall {
                            break;
                        }
                        let run = next.fetch_add(1, Ordering::Relaxed);
                        if run >= budget.max_runs {
                            break;
                        }
                        let seed = run_seed(base_seed, run);
                        cur_since[w].store(start.elapsed().as_millis() as u64, Ordering::Relaxed);
                        cur_run[w].store(run + 1, Ordering::Relaxed);
                        let r = execute(sc, seed, Tape::generate(seed), false);
                        cur_run[w].store(0, Ordering::Relaxed);
                        local.runs += 1;
                        local.sim_time_us += r.outcome.sim_time_us;
                        for (k, v) in &r.outcome.counters {
                            *local.counters.entry(k.clone()).or_default() += *v;
                        }
                        local.traces.insert(r.trace_hash);
                        if r.outcome.nontrivial {
                            local.nontrivial.insert(r.trace_hash);
                        }
                        for s in &r.outcome.state_sigs {
                            local.states.insert(*s);
                        }
                        if let Some(sample) = r.outcome.sample.clone() {
                            // Keep the samples of the lowest run indices: deterministic choice
                            if run < 3 {
                                local.samples.push((run, sample));
                            }
                        }
                        for v in r.outcome.violations {
                            if let Some(label) = is_known(&v) {
                                *local.known.entry(label).or_default() += 1;
                            } else {
                                local.violations.push((seed, run, v, r.tape.clone()));
                                stop.store(true, Ordering::Relaxed);
                            }
                        }
                    }
                    let mut a = acc.lock().unwrap();
                    a.runs += local.runs;
                    a.sim_time_us += local.sim_time_us;
                    for (k, v) in local.counters {
                        *a.counters.entry(k).or_default() += v;
                    }
                    a.traces.extend(local.traces);
                    a.nontrivial.extend(local.nontrivial);
                    a.states.extend(local.states);
                    a.samples.extend(local.samples);
                    a.violations.extend(local.violations);
                    for (k, v) in local.known {
                        *a.known.entry(k).or_default() += v;
                    }
                    drop(a);
                    workers_done.fetch_add(1, Ordering::Relaxed);
                })
                .unwrap();
        }
    });

    let mut a = acc.into_inner().unwrap();
    a.samples.sort_by_key(|s| s.0);
    a.violations.sort_by_key(|v| v.1);
    BatchReport {
        runs: a.runs,
        wall: start.elapsed(),
        sim_time_us: a.sim_time_us,
        counters: a.counters,
        distinct_traces: a.traces.len() as u64,
        distinct_nontrivial: a.nontrivial.len() as u64,
        distinct_states: a.states.len() as u64,
        samples: a.samples.into_iter().map(|s| s.1).collect(),
        violations: a.violations,
        bounded_runs: 0,
        known_hits: a.known,
    }
}

pub fn replay_file_json(
    sc: &dyn Scenario,
    seed: u64,
    run: u64,
    v: &Violation,
    tape: &[u32],
    trace_hash: u64,
    lines: &[String],
) -> Value {
    json!({
        "property": sc.property(),
        "scenario": sc.name(),
        "seed": seed,
        "run": run,
        "oracle": v.oracle,
        "detail": v.detail,
        "tape": tape,
        "trace_hash": format!("{trace_hash:016x}"),
        "trace": lines,
    })
}
