//! The simulation kernel: simulated clock (embassy time driver), discrete-event queue,
//! and a tape-driven executor of node incarnations.
//!
//! Everything lives in thread-locals: one simulator per OS thread, runs never cross threads.

use std::cell::{Cell, RefCell};
use std::collections::{BTreeMap, BTreeSet, VecDeque};
use std::future::Future;
use std::pin::Pin;
use std::rc::Rc;
use std::sync::atomic::{AtomicBool, Ordering};
use std::sync::Arc;
use std::task::{Context, Poll, Wake, Waker};

use crate::tape;

pub const US: u64 = 1;
pub const MS: u64 = 1_000;
pub const SEC: u64 = 1_000_000;

// ---------------------------------------------------------------------------------------------
// Clock

#[derive(Clone, Copy, Default)]
struct NodeClock {
    /// local = global + offset + global * ppm / 1e6
    offset: u64,
    ppm: i64,
}

impl NodeClock {
    fn local(&self, global: u64) -> u64 {
        let skew = (global as i128 * self.ppm as i128) / 1_000_000;
        (global as i128 + self.offset as i128 + skew).max(0) as u64
    }

    /// Smallest global time `g` with `local(g) >= at`
    fn global_for(&self, at: u64) -> u64 {
        if at <= self.offset {
            return 0;
        }
        let rel = (at - self.offset) as i128;
        let mut g = (rel * 1_000_000 / (1_000_000 + self.ppm as i128)).max(0) as u64;
        // Fix up rounding
        while g > 0 && self.local(g - 1) >= at {
            g -= 1;
        }
        while self.local(g) < at {
            g += 1;
        }
        g
    }
}

struct ClockState {
    now: Cell<u64>,
    cur_node: Cell<Option<usize>>,
    clocks: RefCell<Vec<NodeClock>>,
    /// (node, local deadline) -- one waker per node, so this is all we need to remember
    timers: RefCell<BTreeSet<(usize, u64)>>,
    /// Timers registered outside any node poll (harness futures): not supported
    orphan_timer: Cell<bool>,
}

thread_local! {
    static CLOCK: ClockState = ClockState {
        now: Cell::new(0),
        cur_node: Cell::new(None),
        clocks: RefCell::new(Vec::new()),
        timers: RefCell::new(BTreeSet::new()),
        orphan_timer: Cell::new(false),
    };
}

struct SimDriver;

impl embassy_time_driver::Driver for SimDriver {
    fn now(&self) -> u64 {
        local_now()
    }

    fn schedule_wake(&self, at: u64, _waker: &Waker) {
        CLOCK.with(|c| match c.cur_node.get() {
            Some(node) => {
                c.timers.borrow_mut().insert((node, at));
            }
            None => c.orphan_timer.set(true),
        })
    }
}

embassy_time_driver::time_driver_impl!(static DRIVER: SimDriver = SimDriver);

/// Global simulated time (µs)
pub fn now() -> u64 {
    CLOCK.with(|c| c.now.get())
}

/// Time as seen by the node currently being polled (global time outside polls)
pub fn local_now() -> u64 {
    CLOCK.with(|c| {
        let now = c.now.get();
        match c.cur_node.get() {
            Some(node) => c.clocks.borrow().get(node).copied().unwrap_or_default().local(now),
            None => now,
        }
    })
}

pub fn node_local_now(node: usize) -> u64 {
    CLOCK.with(|c| c.clocks.borrow().get(node).copied().unwrap_or_default().local(c.now.get()))
}

pub fn cur_node() -> Option<usize> {
    CLOCK.with(|c| c.cur_node.get())
}

/// Set the skew of a node clock in ppm, keeping its current local time continuous.
pub fn set_clock_ppm(node: usize, ppm: i64) {
    CLOCK.with(|c| {
        let now = c.now.get();
        let mut clocks = c.clocks.borrow_mut();
        while clocks.len() <= node {
            clocks.push(NodeClock::default());
        }
        let cur = clocks[node].local(now);
        clocks[node].ppm = ppm;
        clocks[node].offset = 0;
        let base = clocks[node].local(now);
        clocks[node].offset = cur.saturating_sub(base);
    })
}

/// Jump a node's clock forward by `delta` µs.
pub fn jump_clock(node: usize, delta: u64) {
    CLOCK.with(|c| {
        let mut clocks = c.clocks.borrow_mut();
        while clocks.len() <= node {
            clocks.push(NodeClock::default());
        }
        clocks[node].offset += delta;
    })
}

fn next_timer() -> Option<(u64, usize, u64)> {
    CLOCK.with(|c| {
        let clocks = c.clocks.borrow();
        c.timers
            .borrow()
            .iter()
            .map(|(node, at)| {
                let clock = clocks.get(*node).copied().unwrap_or_default();
                (clock.global_for(*at), *node, *at)
            })
            .min()
    })
}

fn clear_node_timers(node: usize) {
    CLOCK.with(|c| c.timers.borrow_mut().retain(|(n, _)| *n != node))
}

fn reset_clock() {
    CLOCK.with(|c| {
        c.now.set(0);
        c.cur_node.set(None);
        c.clocks.borrow_mut().clear();
        c.timers.borrow_mut().clear();
        c.orphan_timer.set(false);
    })
}

// ---------------------------------------------------------------------------------------------
// Event log / trace hash

thread_local! {
    static TRACE: RefCell<TraceState> = RefCell::new(TraceState::default());
}

#[derive(Default)]
struct TraceState {
    hash: u64,
    events: u64,
    keep: bool,
    lines: Vec<String>,
}

fn fnv(mut h: u64, bytes: &[u8]) -> u64 {
    if h == 0 {
        h = 0xcbf2_9ce4_8422_2325;
    }
    for b in bytes {
        h ^= *b as u64;
        h = h.wrapping_mul(0x0000_0100_0000_01B3);
    }
    h
}

/// Record an event in the trace. Never draws from the tape, never reads a real clock.
pub fn trace(kind: &str, a: u64, b: u64, data: &[u8]) {
    let t = now();
    TRACE.with(|tr| {
        let mut tr = tr.borrow_mut();
        let mut h = tr.hash;
        h = fnv(h, &t.to_le_bytes());
        h = fnv(h, kind.as_bytes());
        h = fnv(h, &a.to_le_bytes());
        h = fnv(h, &b.to_le_bytes());
        h = fnv(h, data);
        tr.hash = h;
        tr.events += 1;
        if tr.keep {
            let digest = fnv(0, data);
            tr.lines.push(format!(
                "t={t} {kind} a={a} b={b} len={} dg={digest:016x}",
                data.len()
            ));
        }
    })
}

pub fn trace_keep(keep: bool) {
    TRACE.with(|tr| tr.borrow_mut().keep = keep)
}

pub fn trace_result() -> (u64, u64, Vec<String>) {
    TRACE.with(|tr| {
        let mut tr = tr.borrow_mut();
        (tr.hash, tr.events, std::mem::take(&mut tr.lines))
    })
}

fn reset_trace() {
    TRACE.with(|tr| {
        let mut tr = tr.borrow_mut();
        let keep = tr.keep;
        *tr = TraceState::default();
        tr.keep = keep;
    })
}

// ---------------------------------------------------------------------------------------------
// Events

type EventFn = Box<dyn FnOnce()>;

thread_local! {
    static EVENTS: RefCell<BTreeMap<(u64, u64), EventFn>> = RefCell::new(BTreeMap::new());
    static EVENT_SEQ: Cell<u64> = Cell::new(0);
}

/// Schedule `f` to run `delay` µs from now (global time), outside of any node poll.
pub fn after(delay: u64, f: impl FnOnce() + 'static) {
    at(now() + delay, f)
}

pub fn at(time: u64, f: impl FnOnce() + 'static) {
    let time = time.max(now());
    let seq = EVENT_SEQ.with(|s| {
        let v = s.get();
        s.set(v + 1);
        v
    });
    EVENTS.with(|e| e.borrow_mut().insert((time, seq), Box::new(f)));
}

fn next_event_time() -> Option<u64> {
    EVENTS.with(|e| e.borrow().keys().next().map(|(t, _)| *t))
}

fn pop_event() -> Option<((u64, u64), EventFn)> {
    EVENTS.with(|e| e.borrow_mut().pop_first())
}

fn reset_events() {
    // Drop outside of the borrow: event closures may own things whose drop touches thread-locals
    let old = EVENTS.with(|e| std::mem::take(&mut *e.borrow_mut()));
    drop(old);
    EVENT_SEQ.with(|s| s.set(0));
}

// ---------------------------------------------------------------------------------------------
// Node wake handle

pub struct NodeWake {
    pub node: usize,
    woken: AtomicBool,
}

impl NodeWake {
    pub fn set(&self) {
        self.woken.store(true, Ordering::Relaxed);
    }
}

impl Wake for NodeWake {
    fn wake(self: Arc<Self>) {
        self.woken.store(true, Ordering::Relaxed);
    }

    fn wake_by_ref(self: &Arc<Self>) {
        self.woken.store(true, Ordering::Relaxed);
    }
}

// ---------------------------------------------------------------------------------------------
// SimTasks: the per-node combinator the executor drives

#[derive(Clone, Copy, PartialEq, Eq, Debug)]
enum Cmd {
    /// Just make sure the task list is registered
    Init,
    Poll(usize),
    Cancel(usize),
    /// Invoke the node's probe closure (publishes snapshots; must not change state)
    Probe,
}

thread_local! {
    static CMD: Cell<Cmd> = Cell::new(Cmd::Init);
}

pub type TaskFut<'a> = Pin<Box<dyn Future<Output = ()> + 'a>>;

pub struct TaskDef<'a> {
    pub name: &'static str,
    /// Creates the task future; called again after completion if `restart` is set
    pub factory: Box<dyn FnMut() -> TaskFut<'a> + 'a>,
    pub restart: bool,
}

impl<'a> TaskDef<'a> {
    pub fn once(name: &'static str, fut: impl Future<Output = ()> + 'a) -> Self {
        let mut fut = Some(Box::pin(fut) as TaskFut<'a>);
        TaskDef {
            name,
            factory: Box::new(move || fut.take().unwrap_or_else(|| Box::pin(std::future::pending()))),
            restart: false,
        }
    }

    pub fn restartable(name: &'static str, factory: impl FnMut() -> TaskFut<'a> + 'a) -> Self {
        TaskDef {
            name,
            factory: Box::new(factory),
            restart: true,
        }
    }
}

/// Shared between a node's root future and the executor
#[derive(Default)]
pub struct NodeShared {
    /// (name, alive)
    tasks: RefCell<Vec<(&'static str, bool)>>,
    registered: Cell<bool>,
    /// Completions of tasks: (task index, completion count)
    pub completions: RefCell<Vec<usize>>,
    /// Number of times each task has been (re)started
    pub starts: RefCell<Vec<u32>>,
}

pub struct SimTasks<'a> {
    shared: Rc<NodeShared>,
    defs: Vec<TaskDef<'a>>,
    futs: Vec<Option<TaskFut<'a>>>,
    probe: Option<Box<dyn FnMut() + 'a>>,
}

impl<'a> SimTasks<'a> {
    pub fn new(shared: Rc<NodeShared>, mut defs: Vec<TaskDef<'a>>) -> Self {
        let futs = defs.iter_mut().map(|d| Some((d.factory)())).collect::<Vec<_>>();
        *shared.tasks.borrow_mut() = defs.iter().map(|d| (d.name, true)).collect();
        *shared.starts.borrow_mut() = vec![1; defs.len()];
        shared.registered.set(true);
        SimTasks {
            shared,
            defs,
            futs,
            probe: None,
        }
    }

    pub fn with_probe(mut self, probe: impl FnMut() + 'a) -> Self {
        self.probe = Some(Box::new(probe));
        self
    }
}

impl Future for SimTasks<'_> {
    type Output = ();

    fn poll(self: Pin<&mut Self>, cx: &mut Context<'_>) -> Poll<()> {
        let this = self.get_mut();
        match CMD.with(|c| c.get()) {
            Cmd::Init => {}
            Cmd::Probe => {
                if let Some(probe) = this.probe.as_mut() {
                    probe();
                }
            }
            Cmd::Poll(k) => {
                if let Some(Some(fut)) = this.futs.get_mut(k) {
                    if fut.as_mut().poll(cx).is_ready() {
                        this.shared.completions.borrow_mut().push(k);
                        if this.defs[k].restart {
                            this.futs[k] = Some((this.defs[k].factory)());
                            this.shared.starts.borrow_mut()[k] += 1;
                            // Make sure the restarted task gets polled
                            cx.waker().wake_by_ref();
                        } else {
                            this.futs[k] = None;
                            this.shared.tasks.borrow_mut()[k].1 = false;
                        }
                    }
                }
            }
            Cmd::Cancel(k) => {
                if let Some(slot) = this.futs.get_mut(k) {
                    if slot.is_some() {
                        *slot = None;
                        if this.defs[k].restart {
                            this.futs[k] = Some((this.defs[k].factory)());
                            this.shared.starts.borrow_mut()[k] += 1;
                        } else {
                            this.shared.tasks.borrow_mut()[k].1 = false;
                        }
                        cx.waker().wake_by_ref();
                    }
                }
            }
        }
        Poll::Pending
    }
}

// ---------------------------------------------------------------------------------------------
// Executor

pub type RootFut = Pin<Box<dyn Future<Output = ()>>>;

struct NodeSlot {
    root: Option<RootFut>,
    shared: Rc<NodeShared>,
    wake: Arc<NodeWake>,
    waker: Waker,
    /// Tasks which may make progress if polled
    ready: Vec<bool>,
    incarnation: u32,
    /// While `Some(t)`, the node is stalled (not polled) until global time `t`
    stalled_until: Option<u64>,
    /// When set by somebody (e.g. the simulated disk at a crash point), the incarnation is
    /// killed right after the poll during which it was set
    kill_flag: Option<Rc<Cell<bool>>>,
}

#[derive(Clone, Debug)]
pub struct SchedCfg {
    /// Probability (permille) that a scheduling decision deviates from FIFO
    pub nonfifo_permille: u32,
    /// Probability (permille) of continuing with the same task after a poll (priority burst)
    pub burst_permille: u32,
    /// Probability (permille) per scheduling decision of letting the next event fire although
    /// tasks are still runnable (slow CPU), if it is due within `stall_window`
    pub overtake_permille: u32,
    pub overtake_window: u64,
    pub max_polls: u64,
    pub max_time: u64,
}

impl Default for SchedCfg {
    fn default() -> Self {
        SchedCfg {
            nonfifo_permille: 0,
            burst_permille: 0,
            overtake_permille: 0,
            overtake_window: 0,
            max_polls: 2_000_000,
            max_time: 600 * SEC,
        }
    }
}

#[derive(Default, Clone, Debug)]
pub struct ExecStats {
    pub polls: u64,
    pub nonfifo: u64,
    pub bursts: u64,
    pub overtakes: u64,
    pub time_jumps: u64,
    pub events: u64,
    pub cancels: u64,
    pub kills: u64,
}

#[derive(Clone, Copy, PartialEq, Eq, Debug)]
pub enum StopReason {
    Quiescent,
    MaxTime,
    MaxPolls,
    Requested,
}

pub struct Exec {
    nodes: Vec<NodeSlot>,
    queue: VecDeque<(usize, usize)>,
    pub cfg: SchedCfg,
    pub stats: ExecStats,
    last: Option<(usize, usize)>,
    stop: Rc<Cell<bool>>,
}

/// Reset all thread-local simulator state. Call at the beginning of every run.
pub fn reset() {
    reset_events();
    reset_clock();
    reset_trace();
    CMD.with(|c| c.set(Cmd::Init));
}

impl Exec {
    pub fn new(cfg: SchedCfg) -> Self {
        Exec {
            nodes: Vec::new(),
            queue: VecDeque::new(),
            cfg,
            stats: ExecStats::default(),
            last: None,
            stop: Rc::new(Cell::new(false)),
        }
    }

    /// A flag which, when set (typically from an event or a workload task), stops `run`.
    pub fn stop_flag(&self) -> Rc<Cell<bool>> {
        self.stop.clone()
    }

    /// Add a node (without a running incarnation). Returns its index and its wake handle.
    pub fn add_node(&mut self) -> (usize, Arc<NodeWake>) {
        let node = self.nodes.len();
        let wake = Arc::new(NodeWake {
            node,
            woken: AtomicBool::new(false),
        });
        let waker = Waker::from(wake.clone());
        self.nodes.push(NodeSlot {
            root: None,
            shared: Rc::new(NodeShared::default()),
            wake: wake.clone(),
            waker,
            ready: Vec::new(),
            incarnation: 0,
            stalled_until: None,
            kill_flag: None,
        });
        CLOCK.with(|c| {
            let mut clocks = c.clocks.borrow_mut();
            while clocks.len() <= node {
                clocks.push(NodeClock::default());
            }
        });
        (node, wake)
    }

    /// Kill `node` right after any poll during which `flag` got set
    pub fn set_kill_flag(&mut self, node: usize, flag: Rc<Cell<bool>>) {
        self.nodes[node].kill_flag = Some(flag);
    }

    pub fn wake_handle(&self, node: usize) -> Arc<NodeWake> {
        self.nodes[node].wake.clone()
    }

    pub fn incarnation(&self, node: usize) -> u32 {
        self.nodes[node].incarnation
    }

    pub fn is_up(&self, node: usize) -> bool {
        self.nodes[node].root.is_some()
    }

    /// Start a new incarnation of `node`. `build` receives the shared handle which it must pass
    /// to `SimTasks::new` inside the root future.
    pub fn spawn(&mut self, node: usize, build: impl FnOnce(Rc<NodeShared>) -> RootFut) {
        assert!(self.nodes[node].root.is_none(), "node already running");
        let shared = Rc::new(NodeShared::default());
        let root = build(shared.clone());
        let slot = &mut self.nodes[node];
        slot.shared = shared;
        slot.root = Some(root);
        slot.incarnation += 1;
        slot.ready.clear();
        slot.stalled_until = None;
        trace("spawn", node as u64, slot.incarnation as u64, &[]);
        // First poll: runs the preamble and registers the tasks
        self.poll_root(node, Cmd::Init);
        let slot = &mut self.nodes[node];
        assert!(
            slot.shared.registered.get(),
            "node preamble did not reach SimTasks on its first poll"
        );
        let n = slot.shared.tasks.borrow().len();
        slot.ready = vec![false; n];
        slot.wake.set();
    }

    /// Crash the node: drop the whole incarnation.
    pub fn kill(&mut self, node: usize) {
        if let Some(root) = self.nodes[node].root.take() {
            trace("kill", node as u64, self.nodes[node].incarnation as u64, &[]);
            self.stats.kills += 1;
            CLOCK.with(|c| c.cur_node.set(Some(node)));
            drop(root);
            CLOCK.with(|c| c.cur_node.set(None));
        }
        clear_node_timers(node);
        self.nodes[node].ready.clear();
        self.nodes[node].wake.woken.store(false, Ordering::Relaxed);
        self.queue.retain(|(n, _)| *n != node);
        if matches!(self.last, Some((n, _)) if n == node) {
            self.last = None;
        }
    }

    /// Cancel (drop) task `task` of `node` at its current await point.
    pub fn cancel_task(&mut self, node: usize, task: usize) {
        if self.nodes[node].root.is_some() {
            trace("cancel", node as u64, task as u64, &[]);
            self.stats.cancels += 1;
            self.poll_root(node, Cmd::Cancel(task));
        }
    }

    /// Invoke the probe closure of `node` (if it is up)
    pub fn probe(&mut self, node: usize) {
        if self.nodes[node].root.is_some() {
            self.poll_root(node, Cmd::Probe);
        }
    }

    pub fn task_names(&self, node: usize) -> Vec<&'static str> {
        self.nodes[node].shared.tasks.borrow().iter().map(|t| t.0).collect()
    }

    pub fn task_index(&self, node: usize, name: &str) -> Option<usize> {
        self.nodes[node].shared.tasks.borrow().iter().position(|t| t.0 == name)
    }

    pub fn task_alive(&self, node: usize, task: usize) -> bool {
        self.nodes[node]
            .shared
            .tasks
            .borrow()
            .get(task)
            .map(|t| t.1)
            .unwrap_or(false)
    }

    pub fn shared(&self, node: usize) -> Rc<NodeShared> {
        self.nodes[node].shared.clone()
    }

    /// Do not poll `node` until global time `until`
    pub fn stall(&mut self, node: usize, until: u64) {
        self.nodes[node].stalled_until = Some(until);
        let wake = self.nodes[node].wake.clone();
        at(until, move || wake.set());
    }

    fn poll_root(&mut self, node: usize, cmd: Cmd) {
        let slot = &mut self.nodes[node];
        let Some(root) = slot.root.as_mut() else {
            return;
        };
        CMD.with(|c| c.set(cmd));
        CLOCK.with(|c| c.cur_node.set(Some(node)));
        let waker = slot.waker.clone();
        let mut cx = Context::from_waker(&waker);
        let done = root.as_mut().poll(&mut cx).is_ready();
        CLOCK.with(|c| c.cur_node.set(None));
        CMD.with(|c| c.set(Cmd::Init));
        if done {
            // The root itself finished (SimTasks never does): treat as node exit
            slot.root = None;
        }
    }

    fn collect_wakes(&mut self) {
        let now = now();
        for (n, slot) in self.nodes.iter_mut().enumerate() {
            if let Some(until) = slot.stalled_until {
                if now < until {
                    continue;
                }
                slot.stalled_until = None;
            }
            if slot.root.is_some() && slot.wake.woken.swap(false, Ordering::Relaxed) {
                let tasks = slot.shared.tasks.borrow();
                for (t, (_, alive)) in tasks.iter().enumerate() {
                    if *alive && !slot.ready[t] {
                        slot.ready[t] = true;
                        self.queue.push_back((n, t));
                    }
                }
            }
        }
    }

    /// Advance the clock to the next timer/event and fire it. Returns false if there is nothing.
    fn advance(&mut self) -> bool {
        let timer = next_timer();
        let event = next_event_time();
        let next = match (timer, event) {
            (None, None) => return false,
            (Some((t, _, _)), None) => t,
            (None, Some(e)) => e,
            (Some((t, _, _)), Some(e)) => t.min(e),
        };
        if next > self.cfg.max_time {
            return false;
        }
        CLOCK.with(|c| {
            if next > c.now.get() {
                c.now.set(next);
            }
        });
        self.stats.time_jumps += 1;

        // Fire all timers due now
        CLOCK.with(|c| {
            let clocks = c.clocks.borrow();
            let now = c.now.get();
            let mut timers = c.timers.borrow_mut();
            let due: Vec<(usize, u64)> = timers
                .iter()
                .filter(|(node, at)| clocks.get(*node).copied().unwrap_or_default().local(now) >= *at)
                .copied()
                .collect();
            for d in due {
                timers.remove(&d);
                if let Some(slot) = self.nodes.get(d.0) {
                    slot.wake.set();
                }
            }
        });

        // Fire exactly one event due now (the rest follow on the next rounds, so that tasks
        // woken by one event may interleave with the following events of the same instant)
        if matches!(next_event_time(), Some(t) if t <= now()) {
            if let Some((_, f)) = pop_event() {
                self.stats.events += 1;
                f();
            }
        }
        true
    }

    /// Run until quiescence, a bound, or a stop request.
    pub fn run(&mut self) -> StopReason {
        loop {
            if self.stop.get() {
                return StopReason::Requested;
            }
            if self.stats.polls >= self.cfg.max_polls {
                return StopReason::MaxPolls;
            }
            self.collect_wakes();

            if self.queue.is_empty() {
                if now() >= self.cfg.max_time {
                    return StopReason::MaxTime;
                }
                if !self.advance() {
                    // Nothing scheduled: maybe woken flags got set by the last event
                    self.collect_wakes();
                    if self.queue.is_empty() {
                        return if next_timer().is_some() || next_event_time().is_some() {
                            StopReason::MaxTime
                        } else {
                            StopReason::Quiescent
                        };
                    }
                }
                continue;
            }

            // Slow-CPU fault: let a due-soon event overtake runnable tasks
            if self.cfg.overtake_permille > 0 && tape::chance(self.cfg.overtake_permille) {
                let next = match (next_timer().map(|t| t.0), next_event_time()) {
                    (Some(a), Some(b)) => Some(a.min(b)),
                    (a, b) => a.or(b),
                };
                if matches!(next, Some(t) if t <= now() + self.cfg.overtake_window) {
                    self.stats.overtakes += 1;
                    trace("overtake", 0, 0, &[]);
                    self.advance();
                    continue;
                }
            }

            // Pick the next (node, task)
            let mut idx = 0;
            let mut burst = false;
            if let Some(last) = self.last {
                if self.cfg.burst_permille > 0 {
                    if let Some(pos) = self.queue.iter().position(|e| *e == last) {
                        if tape::chance(self.cfg.burst_permille) {
                            idx = pos;
                            burst = true;
                            self.stats.bursts += 1;
                        }
                    }
                }
            }
            if !burst && self.cfg.nonfifo_permille > 0 && self.queue.len() > 1 {
                idx = tape::biased(self.queue.len() as u32, self.cfg.nonfifo_permille) as usize;
                if idx != 0 {
                    self.stats.nonfifo += 1;
                }
            }
            let (node, task) = self.queue.remove(idx).unwrap();
            self.nodes[node].ready[task] = false;
            if !self.nodes[node].root.is_some() || !self.task_alive(node, task) {
                continue;
            }
            if self.nodes[node].stalled_until.is_some() {
                // Stalled: keep it woken for later
                self.nodes[node].wake.set();
                continue;
            }
            self.stats.polls += 1;
            trace("poll", node as u64, task as u64, &[]);
            self.poll_root(node, Cmd::Poll(task));
            self.last = Some((node, task));
            if matches!(&self.nodes[node].kill_flag, Some(f) if f.get()) {
                self.kill(node);
            }
        }
    }

    /// Run for at most `dur` more simulated µs.
    pub fn run_for(&mut self, dur: u64) -> StopReason {
        let saved = self.cfg.max_time;
        self.cfg.max_time = saved.min(now() + dur);
        let target = self.cfg.max_time;
        let r = self.run();
        // Make the clock reach the target even if the system went quiescent earlier
        if matches!(r, StopReason::Quiescent | StopReason::MaxTime) {
            CLOCK.with(|c| {
                if c.now.get() < target {
                    c.now.set(target)
                }
            });
        }
        self.cfg.max_time = saved;
        r
    }

    /// Drop everything (nodes first, then pending events)
    pub fn shutdown(&mut self) {
        for n in 0..self.nodes.len() {
            self.kill(n);
        }
        reset_events();
    }
}

impl Drop for Exec {
    fn drop(&mut self) {
        self.shutdown();
    }
}
