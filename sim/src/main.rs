mod kernel;
mod kv;
mod tlvx;
mod net;
mod props;
mod runner;
mod tape;
mod wire;
mod worlds;

use std::collections::BTreeMap;
use std::path::{Path, PathBuf};
use std::time::{Duration, Instant};

use serde_json::{json, Value};

use props::PropertyDef;
use runner::{Budget, Scenario, Violation};
use tape::Tape;

const DEFAULT_SEED: u64 = 20260925;

struct SimLogger;

impl log::Log for SimLogger {
    fn enabled(&self, _m: &log::Metadata) -> bool {
        true
    }
    fn log(&self, r: &log::Record) {
        eprintln!(
            "[t={:>10}us n={:?}] {} {}",
            kernel::now(),
            kernel::cur_node(),
            r.level(),
            r.args()
        );
    }
    fn flush(&self) {}
}

static LOGGER: SimLogger = SimLogger;

fn verif_dir() -> PathBuf {
    std::env::var_os("VERIF_DIR")
        .map(PathBuf::from)
        .unwrap_or_else(|| PathBuf::from("/verif"))
}

fn env_u64(name: &str) -> Option<u64> {
    std::env::var(name).ok().and_then(|v| v.parse().ok())
}

#[derive(Clone, Debug)]
struct Known {
    property: String,
    oracle: String,
    /// Substring the violation detail must contain (identifies the specific failing history)
    matches: String,
    what: String,
    status: String,
}

fn load_known() -> Vec<Known> {
    let path = verif_dir().join("known_findings.json");
    let Ok(text) = std::fs::read_to_string(&path) else {
        return Vec::new();
    };
    let Ok(v) = serde_json::from_str::<Value>(&text) else {
        eprintln!("harness error: cannot parse {}", path.display());
        std::process::exit(2);
    };
    v.get("findings")
        .and_then(|f| f.as_array())
        .map(|a| {
            a.iter()
                .map(|e| Known {
                    property: e["property"].as_str().unwrap_or("").to_string(),
                    oracle: e["oracle"].as_str().unwrap_or("").to_string(),
                    matches: e["matches"].as_str().unwrap_or("").to_string(),
                    what: e["what"].as_str().unwrap_or("").to_string(),
                    status: e["status"].as_str().unwrap_or("open").to_string(),
                })
                .collect()
        })
        .unwrap_or_default()
}

fn known_match<'a>(known: &'a [Known], prop: &str, v: &Violation) -> Option<&'a Known> {
    known.iter().find(|k| {
        k.status == "open" && k.property == prop && k.oracle == v.oracle && v.detail.contains(&k.matches)
    })
}

fn find_prop(id: &str) -> PropertyDef {
    match props::registry().into_iter().find(|p| p.id == id) {
        Some(p) => p,
        None => {
            eprintln!("harness error: unknown property {id}");
            std::process::exit(2);
        }
    }
}

fn find_scenario<'a>(p: &'a PropertyDef, name: &str) -> &'a dyn Scenario {
    match p.families.iter().find(|f| f.scenario.name() == name) {
        Some(f) => f.scenario.as_ref(),
        None => {
            eprintln!("harness error: unknown scenario {name} of {}", p.id);
            std::process::exit(2);
        }
    }
}

fn cmd_check(id: &str, tier: &str) -> i32 {
    let p = find_prop(id);
    let seed = env_u64("VERIF_SEED").unwrap_or(DEFAULT_SEED);
    let threads = env_u64("VERIF_THREADS").unwrap_or(16) as usize;
    let total_budget = env_u64("VERIF_BUDGET_S").unwrap_or(if tier == "thorough" {
        p.budget_s.1
    } else {
        p.budget_s.0
    });
    let max_runs = env_u64("VERIF_MAX_RUNS").unwrap_or(u64::MAX);
    let known = load_known();
    let start = Instant::now();
    println!("property={id} tier={tier} VERIF_SEED={seed} threads={threads} budget_s={total_budget}");

    let weight_sum: u32 = p.families.iter().map(|f| f.weight).sum();
    let mut total_runs = 0u64;
    let mut sim_time = 0u64;
    let mut counters: BTreeMap<String, u64> = BTreeMap::new();
    let mut distinct_traces = 0u64;
    let mut distinct_nontrivial = 0u64;
    let mut distinct_states = 0u64;
    let mut samples: Vec<Value> = Vec::new();
    let mut per_family: Vec<Value> = Vec::new();
    let mut exit = 0;
    let mut violations_total = 0i64;
    let mut known_hits: BTreeMap<String, u64> = BTreeMap::new();

    let only_family = std::env::var("VERIF_FAMILY").ok();
    for fam in &p.families {
        if matches!(&only_family, Some(f) if f != fam.scenario.name()) {
            continue;
        }
        let share = Duration::from_millis(total_budget * 1000 * fam.weight as u64 / weight_sum as u64);
        let sc = fam.scenario.as_ref();
        let fam_seed = seed ^ tape::Rng::new(hash_str(sc.name())).next_u64();
        let kn = known.clone();
        let pid = p.id.to_string();
        let rep = runner::batch(
            sc,
            fam_seed,
            &Budget {
                max_runs,
                max_wall: share,
            },
            threads,
            &move |v: &Violation| known_match(&kn, &pid, v).map(|k| format!("{} {}", k.oracle, k.what)),
            &|hseed: u64, hrun: u64, secs: u64| {
                // A run that does not terminate: no tape to shrink, the replay file names the seed
                let dir = verif_dir().join("replays");
                let _ = std::fs::create_dir_all(&dir);
                let path = dir.join(format!("{}-{}-{}-{}.json", p.id, sc.name(), hseed, hrun));
                let detail = format!("[{}] run {hrun} (seed {hseed}) did not come back after {secs} s of CPU time spent on it: the code under test loops without yielding", sc.name());
                let doc = json!({
                    "property": p.id, "scenario": sc.name(), "seed": hseed, "run": hrun,
                    "oracle": "run-does-not-terminate", "detail": detail, "tape": [], "by_seed": true,
                    "trace_hash": "", "trace": [],
                });
                let _ = std::fs::write(&path, serde_json::to_string_pretty(&doc).unwrap_or_default());
                println!("  scenario={} violations=1", sc.name());
                println!("  oracle=run-does-not-terminate detail={detail}");
                println!("VIOLATION property={} replay={}", p.id, path.display());
                std::process::exit(1);
            },
        );
        total_runs += rep.runs;
        sim_time += rep.sim_time_us;
        for (k, v) in &rep.counters {
            *counters.entry(k.clone()).or_default() += *v;
        }
        distinct_traces += rep.distinct_traces;
        distinct_nontrivial += rep.distinct_nontrivial;
        distinct_states += rep.distinct_states;
        for s in rep.samples.iter().take(2) {
            samples.push(json!({"scenario": sc.name(), "run": s}));
        }
        for (k, n) in &rep.known_hits {
            *known_hits.entry(k.clone()).or_default() += *n;
        }
        per_family.push(json!({
            "scenario": sc.name(),
            "fault_free": fam.fault_free,
            "runs": rep.runs,
            "wall_s": rep.wall.as_secs_f64(),
            "distinct_traces": rep.distinct_traces,
            "distinct_nontrivial": rep.distinct_nontrivial,
        }));
        println!(
            "  scenario={} runs={} wall={:.1}s distinct_traces={} nontrivial={} violations={}",
            sc.name(),
            rep.runs,
            rep.wall.as_secs_f64(),
            rep.distinct_traces,
            rep.distinct_nontrivial,
            rep.violations.len()
        );

        if let Some((vseed, vrun, v, tp)) = rep.violations.first() {
            violations_total += rep.violations.len() as i64;
            if v.oracle == "harness-panic" {
                eprintln!("harness error: {} (seed {vseed} run {vrun})", v.detail);
                return 2;
            }
            // Minimise, then write the replay file
            let shrink_budget = Duration::from_secs(if tier == "thorough" { 120 } else { 45 });
            let kn2 = known.clone();
            let pid2 = p.id.to_string();
            let is_known = move |x: &Violation| known_match(&kn2, &pid2, x).is_some();
            let small = runner::shrink(sc, *vseed, tp.clone(), &v.oracle, shrink_budget, &is_known);
            let r = runner::execute(sc, *vseed, Tape::replay(small.clone()), true);
            let (fv, tape_used) = match r.outcome.violations.iter().find(|x| x.oracle == v.oracle && !is_known(x)) {
                Some(x) => (x.clone(), small),
                None => {
                    // Shrinking lost it (should not happen): fall back to the original tape
                    (v.clone(), tp.clone())
                }
            };
            let r = runner::execute(sc, *vseed, Tape::replay(tape_used.clone()), true);
            let dir = verif_dir().join("replays");
            let _ = std::fs::create_dir_all(&dir);
            let path = dir.join(format!("{}-{}-{}-{}.json", p.id, sc.name(), vseed, vrun));
            let doc = runner::replay_file_json(sc, *vseed, *vrun, &fv, &tape_used, r.trace_hash, &r.trace_lines);
            if std::fs::write(&path, serde_json::to_string_pretty(&doc).unwrap()).is_err() {
                eprintln!("harness error: cannot write {}", path.display());
                return 2;
            }
            println!("  oracle={} detail={}", fv.oracle, fv.detail);
            println!(
                "  original tape {} values, minimised {} values ({} non-zero)",
                tp.len(),
                tape_used.len(),
                tape_used.iter().filter(|x| **x != 0).count()
            );
            println!("VIOLATION property={} replay={}", p.id, path.display());
            exit = 1;
            break;
        }
    }

    for (k, n) in &known_hits {
        println!("KNOWN-FINDING: property={} {} (hit {} times in this run)", p.id, k, n);
    }
    // Every open finding of this property is reported, hit or not
    for k in known.iter().filter(|k| k.property == p.id && k.status == "open") {
        let key = format!("{} {}", k.oracle, k.what);
        if !known_hits.contains_key(&key) {
            println!("KNOWN-FINDING: property={} {} (not reproduced in this run)", p.id, key);
        }
    }

    let wall = start.elapsed().as_secs_f64();
    let fault_kinds: BTreeMap<&String, &u64> = counters
        .iter()
        .filter(|(k, _)| k.starts_with("fault_") || k.starts_with("sched_") || k.starts_with("crash") || k.starts_with("kv_"))
        .collect();
    let evidence = json!({
        "property_id": p.id,
        "tier": tier,
        "seed": seed,
        "level": p.level,
        "wall_s": wall,
        "violations": violations_total,
        "coverage": {
            "evaluations": total_runs,
            "distinct_nontrivial": distinct_nontrivial,
            "rule": p.rule,
            "samples": samples,
            "states": distinct_states,
            "distinct_traces": distinct_traces,
            "simulated_seconds": sim_time as f64 / 1e6,
            "runs_per_hour": if wall > 0.0 { total_runs as f64 * 3600.0 / wall } else { 0.0 },
            "faults_fired": fault_kinds,
            "counters": counters,
            "scenarios": per_family,
            "known_findings_hit": known_hits,
            "components_real": p.real,
            "components_stubbed": p.stubbed,
            "exhaustive": false,
        },
        "assumptions": p.assumptions,
    });
    let dir = verif_dir().join("evidence");
    let _ = std::fs::create_dir_all(&dir);
    let path = dir.join(format!("{}.json", p.id));
    if std::fs::write(&path, serde_json::to_string_pretty(&evidence).unwrap()).is_err() {
        eprintln!("harness error: cannot write {}", path.display());
        return 2;
    }
    println!(
        "property={} runs={} distinct_nontrivial={} simulated_s={:.0} wall_s={:.1} exit={}",
        p.id,
        total_runs,
        distinct_nontrivial,
        sim_time as f64 / 1e6,
        wall,
        exit
    );
    exit
}

fn hash_str(s: &str) -> u64 {
    let mut h: u64 = 0xcbf2_9ce4_8422_2325;
    for b in s.bytes() {
        h ^= b as u64;
        h = h.wrapping_mul(0x0000_0100_0000_01B3);
    }
    h
}

fn cmd_replay(path: &Path) -> i32 {
    let Ok(text) = std::fs::read_to_string(path) else {
        eprintln!("harness error: cannot read {}", path.display());
        return 2;
    };
    let Ok(doc) = serde_json::from_str::<Value>(&text) else {
        eprintln!("harness error: cannot parse {}", path.display());
        return 2;
    };
    let prop = doc["property"].as_str().unwrap_or("");
    let scn = doc["scenario"].as_str().unwrap_or("");
    let seed = doc["seed"].as_u64().unwrap_or(0);
    let oracle = doc["oracle"].as_str().unwrap_or("");
    let want_hash = doc["trace_hash"].as_str().unwrap_or("");
    let tp: Vec<u32> = doc["tape"]
        .as_array()
        .map(|a| a.iter().map(|v| v.as_u64().unwrap_or(0) as u32).collect())
        .unwrap_or_default();
    let p = find_prop(prop);
    let sc = find_scenario(&p, scn);
    if doc["by_seed"].as_bool().unwrap_or(false) {
        // A run that did not terminate: re-run from its seed under the same watchdog
        let secs = std::env::var("VERIF_RUN_TIMEOUT_S").ok().and_then(|v| v.parse::<u64>().ok()).unwrap_or(120);
        let (tx, rx) = std::sync::mpsc::channel();
        let prop_s = prop.to_string();
        let scn_s = scn.to_string();
        std::thread::Builder::new()
            .stack_size(256 << 20)
            .spawn(move || {
                let p = find_prop(&prop_s);
                let sc = find_scenario(&p, &scn_s);
                let r = runner::execute(sc, seed, Tape::generate(seed), false);
                let _ = tx.send(r.outcome.violations.len());
            })
            .unwrap();
        return match rx.recv_timeout(Duration::from_secs(secs)) {
            Err(_) => {
                println!("replay property={prop} scenario={scn} seed={seed}: did not come back within {secs} s");
                println!("  oracle=run-does-not-terminate");
                println!("VIOLATION property={prop} replay={}", path.display());
                1
            }
            Ok(n) => {
                println!("replay property={prop} scenario={scn} seed={seed}: terminated ({n} violations): not reproduced");
                0
            }
        };
    }
    let r = runner::execute(sc, seed, Tape::replay(tp), true);
    let hash = format!("{:016x}", r.trace_hash);
    println!("replay property={prop} scenario={scn} seed={seed} trace_hash={hash} events={}", r.trace_events);
    if std::env::var_os("VERIF_TRACE").is_some() {
        for l in &r.trace_lines {
            println!("  {l}");
        }
    }
    for v in &r.outcome.violations {
        println!("  oracle={} detail={}", v.oracle, v.detail);
    }
    let reproduced = r.outcome.violations.iter().any(|v| v.oracle == oracle);
    if !want_hash.is_empty() && want_hash != hash {
        eprintln!("harness error: trace hash mismatch (file {want_hash}, now {hash}): code changed or nondeterminism");
        if reproduced {
            println!("VIOLATION property={prop} replay={}", path.display());
            return 1;
        }
        return 2;
    }
    if reproduced {
        println!("VIOLATION property={prop} replay={}", path.display());
        1
    } else {
        println!("violation not reproduced");
        0
    }
}

/// Determinism self-test: every scenario, `n` seeds, each run twice (and once more on another
/// thread); tapes and trace hashes must agree.
fn cmd_selftest(n: u64) -> i32 {
    let seed = env_u64("VERIF_SEED").unwrap_or(DEFAULT_SEED);
    let only = std::env::var("VERIF_ONLY").ok();
    let mut bad = 0;
    let mut total = 0u64;
    for p in props::registry() {
        if let Some(o) = &only {
            if o != p.id {
                continue;
            }
        }
        for fam in &p.families {
            let sc = fam.scenario.as_ref();
            let results: Vec<(u64, u64, Vec<u32>)> = std::thread::scope(|s| {
                let hs: Vec<_> = (0..2)
                    .map(|_| {
                        std::thread::Builder::new()
                            .stack_size(256 << 20)
                            .spawn_scoped(s, move || {
                                let mut v = Vec::new();
                                for i in 0..n {
                                    let rs = runner::run_seed(seed, i);
                                    let a = runner::execute(sc, rs, Tape::generate(rs), false);
                                    let b = runner::execute(sc, rs, Tape::replay(a.tape.clone()), false);
                                    if a.trace_hash != b.trace_hash || a.tape != b.tape {
                                        v.push((i, u64::MAX, a.tape.clone()));
                                    } else {
                                        v.push((i, a.trace_hash, a.tape));
                                    }
                                }
                                v
                            })
                            .unwrap()
                    })
                    .collect();
                let mut rs: Vec<Vec<(u64, u64, Vec<u32>)>> = hs.into_iter().map(|h| h.join().unwrap()).collect();
                let b = rs.pop().unwrap();
                let a = rs.pop().unwrap();
                a.into_iter()
                    .zip(b)
                    .map(|(x, y)| {
                        if x.1 == y.1 && x.2 == y.2 && x.1 != u64::MAX {
                            x
                        } else {
                            (x.0, u64::MAX, x.2)
                        }
                    })
                    .collect()
            });
            let diverged: Vec<u64> = results.iter().filter(|r| r.1 == u64::MAX).map(|r| r.0).collect();
            total += n;
            println!(
                "selftest determinism property={} scenario={} seeds={} diverged={}",
                p.id,
                sc.name(),
                n,
                diverged.len()
            );
            if !diverged.is_empty() {
                println!("  diverging run indices: {:?}", &diverged[..diverged.len().min(10)]);
                bad += 1;
            }
        }
    }
    println!("selftest determinism total_seeds={total} families_with_divergence={bad}");
    if bad > 0 {
        2
    } else {
        0
    }
}

fn cmd_run(id: &str, scn: &str, run: u64) -> i32 {
    let p = find_prop(id);
    let sc = find_scenario(&p, scn);
    let seed = env_u64("VERIF_SEED").unwrap_or(DEFAULT_SEED);
    let fam_seed = seed ^ tape::Rng::new(hash_str(sc.name())).next_u64();
    let rs = runner::run_seed(fam_seed, run);
    let r = runner::execute(sc, rs, Tape::generate(rs), true);
    println!(
        "run seed={rs} tape_len={} nonzero={} trace_hash={:016x} events={} sim_ms={}",
        r.tape.len(),
        r.nonzero,
        r.trace_hash,
        r.trace_events,
        r.outcome.sim_time_us / 1000
    );
    if std::env::var_os("VERIF_TRACE").is_some() {
        for l in &r.trace_lines {
            println!("  {l}");
        }
    }
    if let Some(s) = &r.outcome.sample {
        println!("{}", serde_json::to_string_pretty(s).unwrap());
    }
    for (k, v) in &r.outcome.counters {
        println!("  {k}={v}");
    }
    for v in &r.outcome.violations {
        println!("  VIOLATION oracle={} detail={}", v.oracle, v.detail);
    }
    0
}

fn main() {
    runner::install_panic_hook();
    if std::env::var_os("VERIF_LOG").is_some() {
        let _ = log::set_logger(&LOGGER);
        let lvl = match std::env::var("VERIF_LOG").as_deref() {
            Ok("trace") => log::LevelFilter::Trace,
            Ok("debug") => log::LevelFilter::Debug,
            Ok("info") => log::LevelFilter::Info,
            _ => log::LevelFilter::Warn,
        };
        log::set_max_level(lvl);
    } else {
        log::set_max_level(log::LevelFilter::Off);
    }

    let args: Vec<String> = std::env::args().collect();
    let code = match args.get(1).map(|s| s.as_str()) {
        Some("check") if args.len() >= 4 => cmd_check(&args[2], &args[3]),
        Some("replay") if args.len() >= 3 => cmd_replay(Path::new(&args[2])),
        Some("selftest") => cmd_selftest(args.get(2).and_then(|s| s.parse().ok()).unwrap_or(200)),
        Some("run") if args.len() >= 5 => cmd_run(&args[2], &args[3], args[4].parse().unwrap_or(0)),
        Some("find") if args.len() >= 7 => {
            // find <ID> <scenario> <counter> <from> <to>: run indices whose outcome has that counter
            let p = find_prop(&args[2]);
            let sc = find_scenario(&p, &args[3]);
            let seed = env_u64("VERIF_SEED").unwrap_or(DEFAULT_SEED);
            let fam_seed = seed ^ tape::Rng::new(hash_str(sc.name())).next_u64();
            let (from, to): (u64, u64) = (args[5].parse().unwrap(), args[6].parse().unwrap());
            for run in from..to {
                let rs = runner::run_seed(fam_seed, run);
                let r = runner::execute(sc, rs, Tape::generate(rs), false);
                if r.outcome.counters.get(&args[4]).copied().unwrap_or(0) > 0
                    || r.outcome.violations.iter().any(|v| v.oracle == args[4])
                {
                    println!("run {run} seed {rs} {}={:?}", args[4], r.outcome.counters.get(&args[4]));
                }
            }
            0
        }
        Some("list") => {
            for p in props::registry() {
                println!(
                    "{} {}",
                    p.id,
                    p.families.iter().map(|f| f.scenario.name()).collect::<Vec<_>>().join(",")
                );
            }
            0
        }
        _ => {
            eprintln!("usage: rsm-sim check <ID> <quick|thorough> | replay <file> | selftest [n] | run <ID> <scenario> <run> | list");
            2
        }
    };
    std::process::exit(code);
}
