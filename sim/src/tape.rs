//! The choice tape: the single source of every simulator decision.
//!
//! In *generate* mode values are drawn from a PRNG seeded from (VERIF_SEED, run index) and
//! recorded. In *replay* mode values are read from a recorded tape; reading past its end
//! yields 0. Every choice is encoded so that 0 is the benign alternative, which makes the
//! recorded tape shrinkable (delete / zero / lower).

use std::cell::RefCell;

#[derive(Clone)]
pub struct Rng(pub [u64; 4]);

fn splitmix(x: &mut u64) -> u64 {
    *x = x.wrapping_add(0x9E37_79B9_7F4A_7C15);
    let mut z = *x;
    z = (z ^ (z >> 30)).wrapping_mul(0xBF58_476D_1CE4_E5B9);
    z = (z ^ (z >> 27)).wrapping_mul(0x94D0_49BB_1331_11EB);
    z ^ (z >> 31)
}

impl Rng {
    pub fn new(seed: u64) -> Self {
        let mut s = seed;
        Rng([
            splitmix(&mut s),
            splitmix(&mut s),
            splitmix(&mut s),
            splitmix(&mut s),
        ])
    }

    pub fn next_u64(&mut self) -> u64 {
        // xoshiro256**
        let s = &mut self.0;
        let r = s[1].wrapping_mul(5).rotate_left(7).wrapping_mul(9);
        let t = s[1] << 17;
        s[2] ^= s[0];
        s[3] ^= s[1];
        s[1] ^= s[2];
        s[0] ^= s[3];
        s[2] ^= t;
        s[3] = s[3].rotate_left(45);
        r
    }

    pub fn below(&mut self, n: u64) -> u64 {
        if n <= 1 {
            0
        } else {
            // Bias is irrelevant for our purposes
            self.next_u64() % n
        }
    }
}

/// `rand_core` adapter used as the crypto RNG of a node incarnation.
/// Deliberately *not* fed by the tape: shrinking the schedule must not reshuffle keys.
#[derive(Clone)]
pub struct NodeRng(pub Rng);

impl rand_core::RngCore for NodeRng {
    fn next_u32(&mut self) -> u32 {
        self.0.next_u64() as u32
    }
    fn next_u64(&mut self) -> u64 {
        self.0.next_u64()
    }
    fn fill_bytes(&mut self, dest: &mut [u8]) {
        for chunk in dest.chunks_mut(8) {
            let v = self.0.next_u64().to_le_bytes();
            chunk.copy_from_slice(&v[..chunk.len()]);
        }
    }
    fn try_fill_bytes(&mut self, dest: &mut [u8]) -> Result<(), rand_core::Error> {
        self.fill_bytes(dest);
        Ok(())
    }
}

impl rand_core::CryptoRng for NodeRng {}

pub struct Tape {
    rng: Option<Rng>,
    replay: Vec<u32>,
    pos: usize,
    pub rec: Vec<u32>,
    /// Number of non-zero values handed out
    pub nonzero: u64,
}

impl Tape {
    pub fn generate(seed: u64) -> Self {
        Tape {
            rng: Some(Rng::new(seed)),
            replay: Vec::new(),
            pos: 0,
            rec: Vec::new(),
            nonzero: 0,
        }
    }

    pub fn replay(tape: Vec<u32>) -> Self {
        Tape {
            rng: None,
            replay: tape,
            pos: 0,
            rec: Vec::new(),
            nonzero: 0,
        }
    }

    fn raw(&mut self, n: u32, gen: impl FnOnce(&mut Rng) -> u32) -> u32 {
        let v = if n <= 1 {
            // Still consumes a slot so that tapes stay aligned when `n` depends on state
            if let Some(_) = self.rng {
                0
            } else {
                self.pos += 1;
                0
            }
        } else if let Some(rng) = self.rng.as_mut() {
            gen(rng).min(n - 1)
        } else {
            let v = self.replay.get(self.pos).copied().unwrap_or(0);
            self.pos += 1;
            v.min(n - 1)
        };
        self.rec.push(v);
        if v != 0 {
            self.nonzero += 1;
        }
        v
    }

    /// Uniform choice in `0..n`.
    pub fn choose(&mut self, n: u32) -> u32 {
        self.raw(n, |r| r.below(n as u64) as u32)
    }

    /// `0` with probability `1 - permille/1000`, else uniform in `1..n`.
    pub fn biased(&mut self, n: u32, permille: u32) -> u32 {
        self.raw(n, |r| {
            if r.below(1000) < permille as u64 {
                1 + r.below((n - 1) as u64) as u32
            } else {
                0
            }
        })
    }

    /// Index into `weights`; index 0 is the benign alternative.
    pub fn weighted(&mut self, weights: &[u32]) -> usize {
        let n = weights.len() as u32;
        self.raw(n, |r| {
            let total: u64 = weights.iter().map(|w| *w as u64).sum();
            if total == 0 {
                return 0;
            }
            let mut x = r.below(total);
            for (i, w) in weights.iter().enumerate() {
                if x < *w as u64 {
                    return i as u32;
                }
                x -= *w as u64;
            }
            0
        }) as usize
    }
}

thread_local! {
    static TAPE: RefCell<Tape> = RefCell::new(Tape::replay(Vec::new()));
}

pub fn install(tape: Tape) {
    TAPE.with(|t| *t.borrow_mut() = tape);
}

pub fn take_record() -> (Vec<u32>, u64) {
    TAPE.with(|t| {
        let mut t = t.borrow_mut();
        (std::mem::take(&mut t.rec), t.nonzero)
    })
}

pub fn choose(n: u32) -> u32 {
    TAPE.with(|t| t.borrow_mut().choose(n))
}

pub fn biased(n: u32, permille: u32) -> u32 {
    TAPE.with(|t| t.borrow_mut().biased(n, permille))
}

pub fn chance(permille: u32) -> bool {
    biased(2, permille) != 0
}

pub fn weighted(weights: &[u32]) -> usize {
    TAPE.with(|t| t.borrow_mut().weighted(weights))
}

/// A value in `lo..=hi`, `lo` being the benign one.
pub fn range(lo: u64, hi: u64) -> u64 {
    if hi <= lo {
        choose(1);
        return lo;
    }
    let span = (hi - lo + 1).min(u32::MAX as u64) as u32;
    lo + choose(span) as u64
}
