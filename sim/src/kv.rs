//! Simulated key-value blob store with error / crash injection.
//!
//! Contract simulated: each `store`/`remove` is atomic per key and durable when it returns `Ok`.

use std::cell::RefCell;
use std::collections::BTreeMap;
use std::rc::Rc;

use rs_matter::error::{Error, ErrorCode};
use rs_matter::persist::KvBlobStore;

use crate::kernel;

#[derive(Clone, Debug, PartialEq, Eq)]
pub enum KvOp {
    Store(u16, Vec<u8>),
    Remove(u16),
    Load(u16),
}

#[derive(Clone, Debug)]
pub struct KvRec {
    pub idx: usize,
    pub time: u64,
    pub incarnation: u32,
    pub op: KvOp,
    /// What the caller was told
    pub ok: bool,
    /// Whether the op took effect on the durable image
    pub applied: bool,
}

#[derive(Clone, Copy, Debug, PartialEq, Eq)]
pub enum KvFault {
    /// Return an error, nothing applied
    Err,
    /// Crash before the op is applied
    CrashBefore,
    /// Crash right after the op was applied (the caller never sees the result)
    CrashAfter,
}

#[derive(Default)]
pub struct KvInner {
    pub data: BTreeMap<u16, Vec<u8>>,
    pub log: Vec<KvRec>,
    /// Mutating-op index (counted over store/remove only) -> fault
    pub faults: BTreeMap<usize, KvFault>,
    pub mut_ops: usize,
    /// Set when a crash fault fired: the node must be killed after the current poll; until then
    /// every op is a no-op reporting success
    pub crashed: bool,
    pub incarnation: u32,
    pub err_count: u64,
    pub crash_count: u64,
    /// Shared crash latch: also freezes the node's network output and makes the executor kill it
    pub crash_flag: Option<Rc<std::cell::Cell<bool>>>,
}

#[derive(Clone, Default)]
pub struct SimKv(pub Rc<RefCell<KvInner>>);

impl SimKv {
    pub fn new() -> Self {
        Self::default()
    }

    pub fn snapshot(&self) -> BTreeMap<u16, Vec<u8>> {
        self.0.borrow().data.clone()
    }

    pub fn crashed(&self) -> bool {
        self.0.borrow().crashed
    }

    pub fn new_incarnation(&self, inc: u32) {
        let mut k = self.0.borrow_mut();
        k.crashed = false;
        k.incarnation = inc;
        if let Some(f) = &k.crash_flag {
            f.set(false);
        }
    }

    pub fn set_crash_flag(&self, flag: Rc<std::cell::Cell<bool>>) {
        self.0.borrow_mut().crash_flag = Some(flag);
    }

    pub fn mut_ops(&self) -> usize {
        self.0.borrow().mut_ops
    }

    pub fn set_fault(&self, mut_op_idx: usize, fault: KvFault) {
        self.0.borrow_mut().faults.insert(mut_op_idx, fault);
    }
}

impl KvInner {
    fn mutate(&mut self, op: KvOp) -> Result<(), Error> {
        let idx = self.log.len();
        if self.crashed {
            self.log.push(KvRec {
                idx,
                time: kernel::now(),
                incarnation: self.incarnation,
                op,
                ok: true,
                applied: false,
            });
            return Ok(());
        }
        let n = self.mut_ops;
        self.mut_ops += 1;
        let fault = self.faults.get(&n).copied();
        let (ok, applied) = match fault {
            Some(KvFault::Err) => {
                self.err_count += 1;
                (false, false)
            }
            Some(KvFault::CrashBefore) => {
                self.crashed = true;
                self.crash_count += 1;
                if let Some(f) = &self.crash_flag {
                    f.set(true);
                }
                (true, false)
            }
            Some(KvFault::CrashAfter) => {
                self.crashed = true;
                self.crash_count += 1;
                if let Some(f) = &self.crash_flag {
                    f.set(true);
                }
                (true, true)
            }
            None => (true, true),
        };
        if applied {
            match &op {
                KvOp::Store(k, v) => {
                    self.data.insert(*k, v.clone());
                }
                KvOp::Remove(k) => {
                    self.data.remove(k);
                }
                KvOp::Load(_) => {}
            }
        }
        kernel::trace("kv", n as u64, (ok as u64) | ((applied as u64) << 1), &[]);
        self.log.push(KvRec {
            idx,
            time: kernel::now(),
            incarnation: self.incarnation,
            op,
            ok,
            applied,
        });
        if ok {
            Ok(())
        } else {
            Err(ErrorCode::StdIoError.into())
        }
    }
}

impl KvBlobStore for SimKv {
    fn load<'a>(&mut self, key: u16, buf: &'a mut [u8]) -> Result<Option<&'a [u8]>, Error> {
        let k = self.0.borrow();
        match k.data.get(&key) {
            Some(v) => {
                if v.len() > buf.len() {
                    return Err(ErrorCode::NoSpace.into());
                }
                buf[..v.len()].copy_from_slice(v);
                Ok(Some(&buf[..v.len()]))
            }
            None => Ok(None),
        }
    }

    fn store(&mut self, key: u16, data: &[u8], _buf: &mut [u8]) -> Result<(), Error> {
        self.0.borrow_mut().mutate(KvOp::Store(key, data.to_vec()))
    }

    fn remove(&mut self, key: u16, _buf: &mut [u8]) -> Result<(), Error> {
        self.0.borrow_mut().mutate(KvOp::Remove(key))
    }
}
