//! Properties decided in the full world.

use serde_json::json;

use crate::kernel::{SchedCfg, SEC};
use crate::props::{Family, PropertyDef};
use crate::runner::{Outcome, Scenario};
use crate::worlds::full::*;
use crate::worlds::full_drive::*;

pub fn common_counters(run: &FullRun, out: &mut Outcome) {
    for (k, v) in &run.fired {
        out.count(&format!("fault_{k}"), *v);
    }
    out.count("net_sent", run.net.sent);
    out.count("net_dropped", run.net.dropped);
    out.count("sched_nonfifo_choices", run.exec.nonfifo);
    out.count("sched_bursts", run.exec.bursts);
    out.count("polls", run.exec.polls);
    out.count("kv_ops", run.kv.len() as u64);
    out.count("runs_all_scripts_done", run.all_done as u64);
    out.count("runs_hit_bound", matches!(run.stop, crate::kernel::StopReason::MaxPolls) as u64);
    out.sim_time_us = run.end_time;
}

pub struct Smoke;

impl Scenario for Smoke {
    fn property(&self) -> &'static str {
        "X00"
    }
    fn name(&self) -> &'static str {
        "full-smoke"
    }
    fn run(&self, seed: u64) -> Outcome {
        let cfg = FullCfg {
            n_devices: 1,
            controllers: vec![CtlSpec {
                fabric_id: 1,
                node_id: 112233,
                script: vec![
                    CtlStep::Commission { dev: 0 },
                    CtlStep::ReadOnOff { dev: 0 },
                    CtlStep::Toggle { dev: 0 },
                    CtlStep::ReadOnOff { dev: 0 },
                ],
                continue_on_error: false,
            }],
            handlers: 3,
            net: UniformNet {
                latency_us: 1000,
                ..Default::default()
            },
            sched: SchedCfg {
                max_polls: 2_000_000,
                max_time: 600 * SEC,
                ..Default::default()
            },
            limit_us: 300 * SEC,
            kv_faults: vec![],
            crashes: vec![],
            restart_after_us: SEC,
            cancels: vec![],
            calm_at_us: None,
        };
        let run = drive_full(seed, cfg);
        let mut out = Outcome::default();
        common_counters(&run, &mut out);
        let reads: Vec<bool> = run
            .log
            .iter()
            .filter_map(|e| match e.kind {
                FullKind::ReadOnOff { value } => Some(value),
                _ => None,
            })
            .collect();
        if reads != vec![false, true] {
            out.violate(
                "smoke",
                format!("reads {reads:?}; log {:?}", run.log.iter().map(|e| format!("{} {:?}", e.time, e.kind)).collect::<Vec<_>>()),
            );
        }
        out.sample = Some(json!({"events": run.log.iter().map(|e| format!("t={} n{} {:?}", e.time, e.node, e.kind)).collect::<Vec<_>>(),
            "kv_ops": run.kv.iter().map(|k| format!("{:?} ok={} applied={}", match &k.op { crate::kv::KvOp::Store(key, v) => format!("store {key:#x} {}B", v.len()), crate::kv::KvOp::Remove(key) => format!("remove {key:#x}"), crate::kv::KvOp::Load(key) => format!("load {key:#x}") }, k.ok, k.applied)).collect::<Vec<_>>(),
            "datagrams": run.net.sent, "polls": run.exec.polls}));
        out.nontrivial = true;
        out
    }
}

pub fn defs() -> Vec<PropertyDef> {
    vec![PropertyDef {
        id: "X00",
        level: "exploration",
        families: vec![Family {
            scenario: Box::new(Smoke),
            weight: 1,
            fault_free: true,
        }],
        rule: "development smoke scenario (not a property)",
        assumptions: vec![],
        real: "",
        stubbed: "",
        budget_s: (10, 10),
    }]
}
