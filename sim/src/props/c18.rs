//! C18: BTP. Two real `Btp` engines joined by a simulated GATT link (reliable, ordered, with
//! tape-drawn per-segment delays and stalls), and a hostile-peer variant where the harness
//! replaces one end by a generator of arbitrary segments.

use std::cell::RefCell;
use std::collections::VecDeque;
use std::rc::Rc;

use embassy_time::{Duration, Timer};
use rs_matter::transport::network::btp::Btp;
use rs_matter::transport::network::BtAddr;
use serde_json::json;

use crate::kernel::{self, Exec, NodeShared, RootFut, SchedCfg, SimTasks, StopReason, TaskDef, MS, SEC};
use crate::props::{Family, PropertyDef};
use crate::runner::{Outcome, Scenario};
use crate::tape::{self, Rng};

const ADDR: [BtAddr; 2] = [BtAddr([0xaa; 6]), BtAddr([0xbb; 6])];
const ACK_TIMEOUT_US: u64 = 15 * SEC;
const IDLE_TIMEOUT_US: u64 = 30 * SEC;

// ---------------------------------------------------------------------------------------------
// Independent decoder/encoder of BTP segment headers (written from the Matter spec)

#[derive(Clone, Debug, Default, PartialEq, Eq)]
pub struct Seg {
    pub handshake: bool,
    pub opcode: Option<u8>,
    pub ack: Option<u8>,
    pub seq: Option<u8>,
    pub begin_len: Option<u16>,
    pub cont: bool,
    pub end: bool,
    pub payload: Vec<u8>,
}

pub fn decode_seg(b: &[u8]) -> Option<Seg> {
    let f = *b.first()?;
    let mut off = 1;
    let mut s = Seg {
        handshake: f & 0x40 != 0,
        cont: f & 0x02 != 0,
        end: f & 0x04 != 0,
        ..Default::default()
    };
    if f & 0x20 != 0 {
        s.opcode = Some(*b.get(off)?);
        off += 1;
    }
    if f & 0x08 != 0 {
        s.ack = Some(*b.get(off)?);
        off += 1;
    }
    if !s.handshake {
        s.seq = Some(*b.get(off)?);
        off += 1;
        if f & 0x01 != 0 {
            s.begin_len = Some(u16::from_le_bytes([*b.get(off)?, *b.get(off + 1)?]));
            off += 2;
        }
    }
    s.payload = b[off..].to_vec();
    Some(s)
}

pub fn encode_seg(s: &Seg) -> Vec<u8> {
    let mut f = 0u8;
    if s.handshake {
        f |= 0x40 | 0x01 | 0x04;
    }
    if s.opcode.is_some() {
        f |= 0x20;
    }
    if s.ack.is_some() {
        f |= 0x08;
    }
    if s.begin_len.is_some() {
        f |= 0x01;
    }
    if s.cont {
        f |= 0x02;
    }
    if s.end {
        f |= 0x04;
    }
    let mut v = vec![f];
    if let Some(o) = s.opcode {
        v.push(o);
    }
    if let Some(a) = s.ack {
        v.push(a);
    }
    if !s.handshake {
        v.push(s.seq.unwrap_or(0));
        if let Some(l) = s.begin_len {
            v.extend_from_slice(&l.to_le_bytes());
        }
    }
    v.extend_from_slice(&s.payload);
    v
}

// ---------------------------------------------------------------------------------------------
// The link

#[derive(Clone, Debug)]
pub struct LinkEv {
    pub time: u64,
    /// Local time of the node the event happened on
    pub local_time: u64,
    pub from: usize,
    pub bytes: Vec<u8>,
    /// false = put on the link by `from`, true = handed to the other end's `process_incoming`
    pub delivered: bool,
    /// Result of `process_incoming` for delivered segments
    pub ok: Option<bool>,
}

#[derive(Default)]
pub struct Link {
    /// Per receiving end: segments which arrived and wait for the pump-in task
    inbox: [VecDeque<Vec<u8>>; 2],
    pub log: Vec<LinkEv>,
    /// Earliest allowed delivery time per direction (the link is ordered)
    next_free: [u64; 2],
    wakes: Vec<std::sync::Arc<kernel::NodeWake>>,
    pub cfg: LinkCfg,
    pub stalls: u64,
    pub long_stalls: u64,
}

#[derive(Clone, Debug, Default)]
pub struct LinkCfg {
    pub latency_us: u64,
    pub jitter_us: u64,
    pub stall_permille: u32,
    pub stall_max_ms: u64,
}

type LinkRc = Rc<RefCell<Link>>;

fn link_send(link: &LinkRc, from: usize, bytes: &[u8]) {
    let to = 1 - from;
    let (at, wake) = {
        let mut l = link.borrow_mut();
        let mut delay = l.cfg.latency_us
            + if l.cfg.jitter_us > 0 {
                tape::range(0, l.cfg.jitter_us / 100) * 100
            } else {
                0
            };
        if l.cfg.stall_permille > 0 && tape::chance(l.cfg.stall_permille) {
            let ms = tape::range(1, l.cfg.stall_max_ms.max(1));
            delay += ms * MS;
            l.stalls += 1;
            if ms * MS > ACK_TIMEOUT_US {
                l.long_stalls += 1;
            }
        }
        let at = (kernel::now() + delay).max(l.next_free[from] + 1);
        l.next_free[from] = at;
        kernel::trace("btp_send", from as u64, at, bytes);
        l.log.push(LinkEv {
            time: kernel::now(),
            local_time: kernel::node_local_now(from),
            from,
            bytes: bytes.to_vec(),
            delivered: false,
            ok: None,
        });
        (at, l.wakes.get(to).cloned())
    };
    let link = link.clone();
    let bytes = bytes.to_vec();
    kernel::at(at, move || {
        link.borrow_mut().inbox[to].push_back(bytes);
        if let Some(w) = wake {
            w.set();
        }
    });
}

// ---------------------------------------------------------------------------------------------
// A good end

#[derive(Clone, Debug)]
pub enum EndEv {
    Sent { time: u64, idx: usize },
    SendErr { time: u64, idx: usize },
    Recv { time: u64, data: Vec<u8> },
    IncomingErr { time: u64 },
    OutgoingErr { time: u64 },
    TimedOut { time: u64 },
}

struct EndCtx {
    node: usize,
    initiator: bool,
    gatt_mtu: Option<u16>,
    relaxed: bool,
    link: LinkRc,
    msgs: Vec<Vec<u8>>,
    send_gap_ms: Vec<u32>,
    log: Rc<RefCell<Vec<EndEv>>>,
}

fn end_root(ctx: EndCtx, shared: Rc<NodeShared>) -> RootFut {
    Box::pin(async move {
        let btp = Btp::new();
        btp.set_relaxed_mtu_nego(ctx.relaxed);
        if ctx.initiator {
            btp.set_initiator(true);
        }
        let node = ctx.node;
        let peer = ADDR[1 - node];
        let btp = &btp;
        let ctx = &ctx;

        let tasks = vec![
            TaskDef::once("pump_out", async move {
                let mut buf = [0u8; 512];
                loop {
                    loop {
                        match btp.process_outgoing(ctx.gatt_mtu, &mut buf) {
                            Ok(0) => break,
                            Ok(len) => link_send(&ctx.link, node, &buf[..len]),
                            Err(_) => {
                                ctx.log.borrow_mut().push(EndEv::OutgoingErr { time: kernel::now() });
                                break;
                            }
                        }
                    }
                    btp.wait_outgoing().await;
                }
            }),
            TaskDef::once("pump_in", async move {
                loop {
                    let seg = core::future::poll_fn(|_| {
                        match ctx.link.borrow_mut().inbox[node].pop_front() {
                            Some(s) => core::task::Poll::Ready(s),
                            None => core::task::Poll::Pending,
                        }
                    })
                    .await;
                    let r = btp.process_incoming(ctx.gatt_mtu, peer, &seg);
                    kernel::trace("btp_in", node as u64, r.is_ok() as u64, &seg);
                    ctx.link.borrow_mut().log.push(LinkEv {
                        time: kernel::now(),
                        local_time: kernel::node_local_now(node),
                        from: 1 - node,
                        bytes: seg,
                        delivered: true,
                        ok: Some(r.is_ok()),
                    });
                    if r.is_err() {
                        ctx.log.borrow_mut().push(EndEv::IncomingErr { time: kernel::now() });
                    }
                }
            }),
            TaskDef::once("app_send", async move {
                for (idx, m) in ctx.msgs.iter().enumerate() {
                    let gap = ctx.send_gap_ms[idx];
                    if gap > 0 {
                        Timer::after(Duration::from_millis(gap as u64)).await;
                    }
                    match btp.send(m, peer).await {
                        Ok(()) => ctx.log.borrow_mut().push(EndEv::Sent { time: kernel::now(), idx }),
                        Err(_) => ctx.log.borrow_mut().push(EndEv::SendErr { time: kernel::now(), idx }),
                    }
                }
                core::future::pending::<()>().await
            }),
            TaskDef::once("app_recv", async move {
                let mut buf = vec![0u8; 2048];
                loop {
                    match btp.recv(&mut buf).await {
                        Ok((len, _)) => {
                            kernel::trace("btp_recv", node as u64, len as u64, &buf[..len]);
                            ctx.log.borrow_mut().push(EndEv::Recv {
                                time: kernel::now(),
                                data: buf[..len].to_vec(),
                            })
                        }
                        Err(_) => Timer::after(Duration::from_millis(10)).await,
                    }
                }
            }),
            TaskDef::once("timeout", async move {
                btp.wait_timeout().await;
                ctx.log.borrow_mut().push(EndEv::TimedOut { time: kernel::now() });
                core::future::pending::<()>().await
            }),
        ];
        SimTasks::new(shared, tasks).await
    })
}

fn gen_msgs(seed: u64, who: u64, n: usize) -> (Vec<Vec<u8>>, Vec<u32>) {
    let mut r = Rng::new(seed ^ (who << 32) ^ 0xB7B);
    let mut msgs = Vec::new();
    let mut gaps = Vec::new();
    for i in 0..n {
        let len = match tape::biased(8, 600) {
            0 => 1 + tape::choose(40) as usize,
            1 => 1,
            2 => 17 + tape::choose(6) as usize,
            3 => 100 + tape::choose(200) as usize,
            4 => 241 + tape::choose(8) as usize,
            5 => 600 + tape::choose(400) as usize,
            6 => rs_matter::transport::network::MAX_TX_PACKET_SIZE - tape::choose(3) as usize,
            _ => 480 + tape::choose(20) as usize,
        };
        let mut m = vec![0u8; len];
        // Unique content: index + direction first
        m[0] = i as u8;
        for b in m.iter_mut().skip(1) {
            *b = r.next_u64() as u8;
        }
        if m.len() > 1 {
            m[1] = who as u8;
        }
        msgs.push(m);
        gaps.push([0, 0, 5, 200, 3000, 16_000][tape::biased(6, 300) as usize]);
    }
    (msgs, gaps)
}

fn gatt_mtu_choice() -> Option<u16> {
    match tape::choose(9) {
        0 => None,
        1 => Some(23),
        2 => Some(24),
        3 => Some(64),
        4 => Some(100),
        5 => Some(185),
        6 => Some(200),
        7 => Some(247),
        _ => Some(512),
    }
}

pub struct GoodEnds {
    pub faults: bool,
}

impl Scenario for GoodEnds {
    fn property(&self) -> &'static str {
        "C18"
    }
    fn name(&self) -> &'static str {
        if self.faults {
            "two-good-ends-stalls"
        } else {
            "two-good-ends-fault-free"
        }
    }

    fn run(&self, seed: u64) -> Outcome {
        let mut out = Outcome::default();
        let gatt_mtu = gatt_mtu_choice();
        let relaxed = tape::choose(2) == 1;
        let n0 = tape::choose(14) as usize;
        let n1 = tape::choose(14) as usize;
        let (m0, g0) = gen_msgs(seed, 0, n0);
        let (m1, g1) = gen_msgs(seed, 1, n1);
        let cfg = if self.faults {
            LinkCfg {
                latency_us: 500 + tape::choose(8) as u64 * 2_500,
                jitter_us: tape::choose(4) as u64 * 5_000,
                stall_permille: [0, 20, 100, 300][tape::choose(4) as usize],
                stall_max_ms: [50, 2_000, 14_000, 31_000][tape::choose(4) as usize],
            }
        } else {
            LinkCfg {
                latency_us: 1_000,
                ..Default::default()
            }
        };
        let sched = if self.faults {
            SchedCfg {
                nonfifo_permille: [0, 100, 400][tape::choose(3) as usize],
                burst_permille: [0, 300][tape::choose(2) as usize],
                max_polls: 300_000,
                max_time: 3_600 * SEC,
                ..Default::default()
            }
        } else {
            SchedCfg {
                max_polls: 300_000,
                max_time: 3_600 * SEC,
                ..Default::default()
            }
        };

        let link: LinkRc = Rc::new(RefCell::new(Link {
            cfg: cfg.clone(),
            ..Default::default()
        }));
        let logs = [Rc::new(RefCell::new(Vec::new())), Rc::new(RefCell::new(Vec::new()))];
        let mut exec = Exec::new(sched.clone());
        let ppm = [0i64, [0, 0, 80_000, -80_000][tape::choose(4) as usize]];
        for node in 0..2 {
            let (n, wake) = exec.add_node();
            assert_eq!(n, node);
            link.borrow_mut().wakes.push(wake);
            kernel::set_clock_ppm(node, ppm[node]);
        }
        for node in 0..2 {
            let ctx = EndCtx {
                node,
                initiator: node == 0,
                gatt_mtu,
                relaxed,
                link: link.clone(),
                msgs: if node == 0 { m0.clone() } else { m1.clone() },
                send_gap_ms: if node == 0 { g0.clone() } else { g1.clone() },
                log: logs[node].clone(),
            };
            exec.spawn(node, move |shared| end_root(ctx, shared));
        }

        // Run the workload, then let things settle without stalls
        let total_gap: u64 = g0.iter().chain(g1.iter()).map(|g| *g as u64).sum();
        let budget = (total_gap + 120_000) * MS;
        let mut stop = StopReason::Quiescent;
        let start = kernel::now();
        while kernel::now() < start + budget {
            stop = exec.run_for(500 * MS);
            if matches!(stop, StopReason::MaxPolls) {
                break;
            }
            let done = |node: usize, n: usize| {
                logs[node]
                    .borrow()
                    .iter()
                    .filter(|e: &&EndEv| matches!(e, EndEv::Sent { .. } | EndEv::SendErr { .. }))
                    .count()
                    >= n
            };
            let recvd = |node: usize| logs[node].borrow().iter().filter(|e| matches!(e, EndEv::Recv { .. })).count();
            if done(0, n0) && done(1, n1) && recvd(1) >= n0 && recvd(0) >= n1 {
                break;
            }
        }
        link.borrow_mut().cfg.stall_permille = 0;
        link.borrow_mut().cfg.stall_max_ms = cfg.stall_max_ms * (cfg.stall_permille > 0) as u64;
        // Healthy link from here on: everything that was sent has to arrive (bounded liveness)
        let t0 = kernel::now();
        while !matches!(stop, StopReason::MaxPolls) && kernel::now() < t0 + 600 * SEC {
            stop = exec.run_for(5 * SEC);
            let recvd = |node: usize| logs[node].borrow().iter().filter(|e| matches!(e, EndEv::Recv { .. })).count();
            let timed_out = logs.iter().any(|l| l.borrow().iter().any(|e| matches!(e, EndEv::TimedOut { .. })));
            if timed_out || (recvd(1) >= n0 && recvd(0) >= n1) {
                break;
            }
        }
        if !matches!(stop, StopReason::MaxPolls) {
            stop = exec.run_for(20 * SEC);
        }
        let end = kernel::now();
        let end_local = [kernel::node_local_now(0), kernel::node_local_now(1)];
        let stats = exec.stats.clone();
        exec.shutdown();
        drop(exec);

        let link = link.borrow();
        let l0 = logs[0].borrow().clone();
        let l1 = logs[1].borrow().clone();
        check_good(&mut out, &link, [&l0, &l1], [&m0, &m1], end_local, stop);

        out.count("fault_link_stalls", link.stalls);
        out.count("fault_link_stalls_beyond_ack_deadline", link.long_stalls);
        out.count("sched_nonfifo_choices", stats.nonfifo);
        out.count("sched_bursts", stats.bursts);
        out.count("segments", link.log.iter().filter(|e| !e.delivered).count() as u64);
        out.count("messages_sent", (n0 + n1) as u64);
        out.count("runs_hit_bound", matches!(stop, StopReason::MaxPolls) as u64);
        let max_seq = link
            .log
            .iter()
            .filter(|e| !e.delivered)
            .filter_map(|e| decode_seg(&e.bytes))
            .filter(|s| s.seq.is_some())
            .count();
        out.count("probe_seq_wraps", (max_seq / 2 / 256) as u64);
        out.sim_time_us = end;
        out.nontrivial = (n0 + n1) > 0 && (link.stalls > 0 || stats.nonfifo + stats.bursts > 0);
        out.state_sigs.push((gatt_mtu.unwrap_or(0) as u64) << 8 | relaxed as u64);
        out.sample = Some(json!({"gatt_mtu": gatt_mtu, "relaxed_mtu": relaxed, "messages": [m0.iter().map(|m| m.len()).collect::<Vec<_>>(), m1.iter().map(|m| m.len()).collect::<Vec<_>>()],
            "link": format!("{:?}", cfg), "clock_ppm": ppm, "segments": link.log.iter().filter(|e| !e.delivered).count(), "simulated_ms": end / 1000}));
        out
    }
}

fn check_good(out: &mut Outcome, link: &Link, logs: [&Vec<EndEv>; 2], msgs: [&Vec<Vec<u8>>; 2], end_local: [u64; 2], stop: StopReason) {
    let timed_out = logs.iter().any(|l| l.iter().any(|e| matches!(e, EndEv::TimedOut { .. })));
    let any_err = logs
        .iter()
        .any(|l| l.iter().any(|e| matches!(e, EndEv::IncomingErr { .. } | EndEv::OutgoingErr { .. })));
    if any_err {
        out.violate(
            "C18-good-ends-reject-each-other",
            "a well-behaved end refused a segment of the other well-behaved end (or failed to produce one)".to_string(),
        );
    }

    // Exactly once, unmodified, in order
    for node in 0..2 {
        let sent = msgs[1 - node];
        let recvd: Vec<&Vec<u8>> = logs[node]
            .iter()
            .filter_map(|e| match e {
                EndEv::Recv { data, .. } => Some(data),
                _ => None,
            })
            .collect();
        for (i, r) in recvd.iter().enumerate() {
            match sent.get(i) {
                Some(s) if s == *r => {}
                Some(s) => out.violate(
                    "C18-message-corrupted-or-reordered",
                    format!("end {node} received message #{i} of {} bytes (first byte {}), expected {} bytes (first byte {})", r.len(), r[0], s.len(), s[0]),
                ),
                None => out.violate(
                    "C18-message-duplicated-or-fabricated",
                    format!("end {node} received {} messages but only {} were sent", recvd.len(), sent.len()),
                ),
            }
        }
        out.count("messages_received", recvd.len() as u64);
        // Liveness: without a session time-out everything sent arrives once the link stops stalling
        if !timed_out && !matches!(stop, StopReason::MaxPolls) && recvd.len() < sent.len() {
            out.violate(
                "C18-message-not-delivered",
                format!("end {node} received {} of {} messages although the link was healthy at the end and no end timed out", recvd.len(), sent.len()),
            );
        }
    }

    // Window discipline and acknowledgement deadline, from the link log.
    // The deadline can only be met when the peer's own acknowledgements come back in time (an end
    // whose send window is exhausted cannot send anything, not even an ACK): it is evaluated in
    // runs whose link stalls stay well below the acknowledgement timeout.
    let check_deadline = link.cfg.stall_max_ms <= 2_000;
    let slack = 2 * SEC + 4 * link.cfg.stall_max_ms * MS + 2 * link.cfg.latency_us + 2 * link.cfg.jitter_us;
    let mut window: Option<u8> = None;
    // per sender: last own seq sent, last ack received from the peer
    let mut last_sent: [Option<u8>; 2] = [None, None];
    let mut last_acked: [Option<u8>; 2] = [None, None];
    // per receiver: (seq, local arrival time) of segments not yet acknowledged by it
    let mut unacked_rx: [Vec<(u8, u64)>; 2] = [Vec::new(), Vec::new()];
    for ev in &link.log {
        let Some(seg) = decode_seg(&ev.bytes) else { continue };
        if !ev.delivered {
            let s = ev.from;
            if seg.handshake {
                if s == 1 {
                    // Handshake response: version(1) mtu(2) window(1); it is the responder's seq 0
                    if seg.payload.len() >= 4 {
                        window = Some(seg.payload[3]);
                    }
                    last_sent[1] = Some(0);
                }
                continue;
            }
            if let Some(seq) = seg.seq {
                // In flight = sent and not yet acknowledged by an ack this sender has received
                if let Some(w) = window {
                    let base = match last_acked[s] {
                        Some(a) => a,
                        // Nothing acknowledged yet: the initiator starts at seq 0, the responder's
                        // handshake response was its seq 0
                        None => 255u8.wrapping_add(if s == 1 { 0 } else { 0 }),
                    };
                    let in_flight = seq.wrapping_sub(base);
                    if in_flight as u16 > w as u16 {
                        out.violate(
                            "C18-window-overrun-by-good-end",
                            format!("end {s} sent seq {seq} with {in_flight} unacknowledged segments in flight, window {w}"),
                        );
                    }
                }
                last_sent[s] = Some(seq);
            }
            if let Some(a) = seg.ack {
                // This end acknowledges everything up to `a`
                unacked_rx[s].retain(|(q, _)| {
                    // keep those after `a` (mod 256, window < 128)
                    let d = q.wrapping_sub(a);
                    d != 0 && d < 128
                });
            }
            // Deadline: anything received more than the ack timeout ago (receiver-local) must have been acked
            for (q, t) in &unacked_rx[s] {
                if check_deadline && ev.local_time > *t + ACK_TIMEOUT_US + slack {
                    out.violate(
                        "C18-ack-deadline-missed",
                        format!("end {s} had not acknowledged seq {q} received at local t={t} by local t={}", ev.local_time),
                    );
                }
            }
        } else {
            let r = 1 - ev.from;
            if ev.ok == Some(true) {
                if let Some(a) = seg.ack {
                    last_acked[r] = Some(a);
                }
                if let Some(seq) = seg.seq {
                    unacked_rx[r].push((seq, ev.local_time));
                }
            }
        }
    }
    if !timed_out && check_deadline {
        for node in 0..2 {
            for (q, t) in &unacked_rx[node] {
                if end_local[node] > *t + ACK_TIMEOUT_US + slack {
                    out.violate(
                        "C18-ack-deadline-missed",
                        format!("end {node} never acknowledged seq {q} received at local t={t} (run ended at local t={})", end_local[node]),
                    );
                }
            }
        }
    }
    let _ = (last_sent, IDLE_TIMEOUT_US);
}

// ---------------------------------------------------------------------------------------------
// Hostile peer

pub struct Hostile;

impl Scenario for Hostile {
    fn property(&self) -> &'static str {
        "C18"
    }
    fn name(&self) -> &'static str {
        "hostile-peer"
    }

    fn run(&self, seed: u64) -> Outcome {
        let mut out = Outcome::default();
        let good_is_initiator = tape::choose(2) == 1;
        let gatt_mtu = gatt_mtu_choice();
        let relaxed = tape::choose(2) == 1;
        let btp = Btp::new();
        btp.set_relaxed_mtu_nego(relaxed);
        if good_is_initiator {
            btp.set_initiator(true);
        }
        let peer = ADDR[1];
        let mut r = Rng::new(seed ^ 0x405711E);
        let mut buf = [0u8; 512];
        let mut model = Reasm::default();
        let mut delivered: Vec<Vec<u8>> = Vec::new();
        let mut log: Vec<String> = Vec::new();
        let mut peer_window: Option<u8> = None;
        let mut good_last_seq_acked_by_peer: Option<u8> = None;
        let mut good_last_seq: Option<u8> = None;
        let mut handshakes = 0;
        let mut established = false;

        // The hostile end may first play a (possibly odd) handshake, or skip it
        let steps = 1 + tape::choose(60);
        let mut hostile_seq: u8 = if good_is_initiator { 1 } else { 0 };
        for _step in 0..steps {
            // 1. let the good end emit what it wants to emit
            for _ in 0..tape::choose(4) {
                match btp.process_outgoing(gatt_mtu, &mut buf) {
                    Ok(0) => break,
                    Ok(len) => {
                        if let Some(seg) = decode_seg(&buf[..len]) {
                            if let (Some(seq), Some(w)) = (seg.seq, peer_window) {
                                let base = good_last_seq_acked_by_peer.unwrap_or(255);
                                let in_flight = seq.wrapping_sub(base);
                                if w > 0 && in_flight as u16 > w as u16 {
                                    out.violate(
                                        "C18-window-overrun-towards-hostile-peer",
                                        format!("good end sent seq {seq} with {in_flight} segments in flight, peer window {w}; log {log:?}"),
                                    );
                                }
                            }
                            if seg.handshake && !good_is_initiator {
                                // Our handshake response is our sequence number 0
                                good_last_seq = Some(0);
                            }
                            if let Some(seq) = seg.seq {
                                good_last_seq = Some(seq);
                            }
                            log.push(format!("good->{:?}", (seg.handshake, seg.seq, seg.ack, seg.payload.len())));
                        }
                    }
                    Err(_) => break,
                }
            }
            // 2. the good application sometimes queues a message
            if tape::chance(200) {
                let len = 1 + tape::choose(600) as usize;
                let data: Vec<u8> = (0..len).map(|_| r.next_u64() as u8).collect();
                // `send` only blocks when a message is already queued: poll it once
                let fut = btp.send(&data, peer);
                let mut fut = std::pin::pin!(fut);
                let waker = std::task::Waker::noop();
                let mut cx = std::task::Context::from_waker(waker);
                let _ = std::future::Future::poll(fut.as_mut(), &mut cx);
            }
            // 3. the hostile end sends a segment
            let kind = tape::weighted(&[300, 150, 100, 100, 100, 80, 80, 60, 60, 60]);
            let mut seg = Seg::default();
            match kind {
                0 => {
                    // a plausible data segment: single-segment message
                    let len = tape::choose(30) as usize;
                    seg.seq = Some(hostile_seq);
                    seg.begin_len = Some(len as u16);
                    seg.end = true;
                    seg.payload = (0..len).map(|_| r.next_u64() as u8).collect();
                }
                1 => {
                    // handshake request / response with odd parameters
                    seg.handshake = true;
                    seg.opcode = Some(0x6c);
                    let mtu = [0u16, 1, 2, 3, 4, 20, 23, 24, 100, 247, 512, 65535][tape::choose(12) as usize];
                    let win = [0u8, 1, 2, 6, 255][tape::choose(5) as usize];
                    if good_is_initiator {
                        seg.payload = vec![4, mtu as u8, (mtu >> 8) as u8, win];
                    } else {
                        seg.payload = vec![4, 0, 0, 0, mtu as u8, (mtu >> 8) as u8, win];
                    }
                }
                2 => {
                    // wrong sequence number
                    seg.seq = Some(hostile_seq.wrapping_add(1 + tape::choose(254) as u8));
                    seg.begin_len = Some(3);
                    seg.end = true;
                    seg.payload = vec![1, 2, 3];
                }
                3 => {
                    // ack of something never sent
                    seg.seq = Some(hostile_seq);
                    seg.ack = Some(tape::choose(256) as u8);
                }
                4 => {
                    // inconsistent length / flags
                    seg.seq = Some(hostile_seq);
                    seg.begin_len = Some([0u16, 1, 5, 1000, 65535][tape::choose(5) as usize]);
                    seg.cont = tape::choose(2) == 1;
                    seg.end = tape::choose(2) == 1;
                    let len = tape::choose(40) as usize;
                    seg.payload = vec![7; len];
                }
                5 => {
                    // continuation without a beginning
                    seg.seq = Some(hostile_seq);
                    seg.cont = true;
                    seg.end = tape::choose(2) == 1;
                    seg.payload = vec![9; tape::choose(20) as usize];
                }
                6 => {
                    // long message start, full segment (needs the negotiated segment size to be accepted)
                    seg.seq = Some(hostile_seq);
                    seg.begin_len = Some(400);
                    let fill = tape::choose(250) as usize;
                    seg.payload = vec![5; fill];
                }
                7 => {
                    // truncated header
                }
                8 => {
                    // data with an opcode / management flag mid-session
                    seg.seq = Some(hostile_seq);
                    seg.opcode = Some(tape::choose(256) as u8);
                    seg.payload = vec![1];
                }
                _ => {
                    // burst beyond the window: same as kind 0 (the window check is on the good end)
                    seg.seq = Some(hostile_seq);
                    seg.begin_len = Some(1);
                    seg.end = true;
                    seg.payload = vec![0x42];
                }
            }
            let bytes = if kind == 7 {
                let full = encode_seg(&Seg {
                    seq: Some(hostile_seq),
                    begin_len: Some(4),
                    ack: Some(1),
                    ..Default::default()
                });
                full[..tape::choose(full.len() as u32) as usize].to_vec()
            } else {
                encode_seg(&seg)
            };
            let res = btp.process_incoming(gatt_mtu, peer, &bytes);
            crate::kernel::trace("hostile", kind as u64, res.is_ok() as u64, &bytes);
            log.push(format!("hostile kind {kind} {:?} -> {}", (seg.handshake, seg.seq, seg.ack, seg.begin_len, seg.cont, seg.end, seg.payload.len()), res.is_ok()));
            out.count(if res.is_ok() { "hostile_segments_accepted" } else { "hostile_segments_refused" }, 1);
            if res.is_ok() && kind != 7 {
                if seg.handshake {
                    established = true;
                    if good_is_initiator && seg.payload.len() >= 4 {
                        peer_window = Some(seg.payload[3]);
                    } else if seg.payload.len() >= 7 {
                        peer_window = Some(seg.payload[6]);
                    }
                    model.cur = None;
                    handshakes += 1;
                    if handshakes > 1 {
                        // What a repeated handshake means for sequence numbers and windows is not
                        // defined by the protocol: the window oracle only covers the first session
                        peer_window = None;
                    }
                } else {
                    if let Some(a) = seg.ack {
                        good_last_seq_acked_by_peer = Some(a);
                    }
                    if seg.seq.is_some() {
                        hostile_seq = hostile_seq.wrapping_add(1);
                        model.accept(&seg);
                    }
                }
            }
            // 4. the good application drains what the engine delivers
            loop {
                let got = {
                    let fut = btp.recv(&mut buf);
                    let mut fut = std::pin::pin!(fut);
                    let waker = std::task::Waker::noop();
                    let mut cx = std::task::Context::from_waker(waker);
                    match std::future::Future::poll(fut.as_mut(), &mut cx) {
                        std::task::Poll::Ready(Ok((len, _))) => Some(len),
                        _ => None,
                    }
                };
                match got {
                    Some(len) => delivered.push(buf[..len].to_vec()),
                    None => break,
                }
            }
        }
        let _ = established;
        // Delivered data must be exactly what the accepted segments spell out
        for (i, d) in delivered.iter().enumerate() {
            match model.done.get(i) {
                Some(m) if m == d => {}
                other => out.violate(
                    "C18-corrupted-delivery-from-hostile-segments",
                    format!(
                        "delivered message #{i} ({} bytes) differs from what the accepted segments spell out ({:?} bytes); log {log:?}",
                        d.len(),
                        other.map(|m| m.len())
                    ),
                ),
            }
        }
        out.count("messages_delivered", delivered.len() as u64);
        out.nontrivial = steps >= 2;
        out.state_sigs.push(delivered.len() as u64);
        out.sample = Some(json!({"good_end_is_initiator": good_is_initiator, "gatt_mtu": gatt_mtu, "relaxed_mtu": relaxed, "steps": steps, "first_steps": log.iter().take(10).collect::<Vec<_>>()}));
        out
    }
}

/// Reference reassembler: what the accepted (Ok) data segments spell out
#[derive(Default)]
struct Reasm {
    cur: Option<(usize, Vec<u8>)>,
    done: Vec<Vec<u8>>,
}

impl Reasm {
    fn accept(&mut self, seg: &Seg) {
        if seg.begin_len.is_none() && !seg.cont && !seg.end {
            return; // stand-alone ack
        }
        if let Some(l) = seg.begin_len {
            self.cur = Some((l as usize, Vec::new()));
        }
        if let Some((len, buf)) = self.cur.as_mut() {
            buf.extend_from_slice(&seg.payload);
            if seg.end {
                let (len, buf) = (*len, std::mem::take(buf));
                self.cur = None;
                if len > 0 && !seg.payload.is_empty() {
                    let _ = len;
                    self.done.push(buf);
                }
            }
        }
    }
}

pub fn defs() -> Vec<PropertyDef> {
    vec![PropertyDef {
        id: "C18",
        level: "exploration",
        families: vec![
            Family {
                scenario: Box::new(GoodEnds { faults: false }),
                weight: 1,
                fault_free: true,
            },
            Family {
                scenario: Box::new(GoodEnds { faults: true }),
                weight: 4,
                fault_free: false,
            },
            Family {
                scenario: Box::new(Hostile),
                weight: 3,
                fault_free: false,
            },
        ],
        rule: "good ends: one run = central + peripheral Btp engines, GATT MTU from {unknown,23,24,64,100,185,200,247,512}, relaxed-MTU flag, 0-13 messages per direction with lengths around the segment boundaries and up to the maximum, tape-drawn per-segment link delays and stalls (up to beyond the 15 s ack deadline and the 30 s idle timeout), clock skew, scheduler deviations; hostile: one good engine (either role) fed 1-60 generated segments of 10 kinds (odd handshakes, wrong sequence, bogus acks, inconsistent length/flags, truncated headers, ...) interleaved with its own sends; distinct = distinct trace hash; non-trivial = at least one message and one stall/scheduling deviation (good ends) or >= 2 hostile steps",
        assumptions: vec![
            "GATT link is reliable and ordered (only delay/stall faults on it)",
            "overflow checks are compiled in: an arithmetic overflow inside rs-matter shows up as a panic and counts as a violation",
            "harness, independent BTP header codec and reference reassembler are trusted",
            "sampling, not enumeration",
        ],
        real: "transport/network/btp.rs (Btp engine), btp/session.rs (windows, handshake, reassembly), btp/session/packet.rs, utils/storage/ringbuf.rs",
        stubbed: "BLE GATT (simulated ordered link), clock, application (send/recv tasks); the Matter transport above BTP is not part of this world",
        budget_s: (60, 600),
    }]
}
