//! C08 / C11: commissioning under the fail-safe is all-or-nothing; persisted state survives a
//! crash at any point. Full world, crash / KV-error injection at every store of the history.

use serde_json::json;

use crate::kernel::{SchedCfg, MS, SEC};
use crate::kv::{KvFault, KvOp};
use crate::props::full_props::common_counters;
use crate::props::{Family, PropertyDef};
use crate::runner::{Outcome, Scenario};
use crate::tape;
use crate::worlds::full::*;
use crate::worlds::full_drive::*;

const CTL_NODE_ID: u64 = 112233;
const FABRIC_ID: u64 = 1;

#[derive(Clone, Copy, PartialEq, Eq)]
pub enum Which {
    C08,
    C11,
}

pub struct CommissionCrash {
    pub which: Which,
    pub faults: bool,
}

impl Scenario for CommissionCrash {
    fn property(&self) -> &'static str {
        match self.which {
            Which::C08 => "C08",
            Which::C11 => "C11",
        }
    }
    fn name(&self) -> &'static str {
        if self.faults {
            "commission-crash"
        } else {
            "commission-fault-free"
        }
    }

    fn run(&self, seed: u64) -> Outcome {
        // ---- fault plan
        let mut kv_faults = Vec::new();
        let mut crashes = Vec::new();
        let mut plan = String::from("none");
        if self.faults {
            match tape::choose(4) {
                0 => {
                    let k = tape::choose(5) as usize;
                    let f = [KvFault::Err, KvFault::CrashBefore, KvFault::CrashAfter][tape::choose(3) as usize];
                    kv_faults.push((k, f));
                    plan = format!("kv op {k} {f:?}");
                }
                1 => {
                    // crash between polls somewhere inside the commissioning conversation
                    let t = tape::choose(45_000) as u64;
                    crashes.push(t);
                    plan = format!("crash at t={t}us");
                }
                2 => {
                    let k = tape::choose(5) as usize;
                    kv_faults.push((k, KvFault::Err));
                    let t = 20_000 + tape::choose(200_000) as u64 * 1000;
                    crashes.push(t);
                    plan = format!("kv op {k} Err + crash at t={t}us");
                }
                _ => {
                    let t = tape::choose(45_000) as u64;
                    let t2 = t + 1_000_000 + tape::choose(3_000_000) as u64;
                    crashes.push(t);
                    crashes.push(t2);
                    plan = format!("crashes at t={t}us and t={t2}us");
                }
            }
        }
        let net = if self.faults && tape::chance(300) {
            UniformNet {
                latency_us: 500,
                jitter_us: 2000,
                drop_permille: [20, 100][tape::choose(2) as usize],
                dup_permille: 50,
                hold_permille: 50,
                hold_max_ms: 300,
                ..Default::default()
            }
        } else {
            UniformNet {
                latency_us: 1000,
                ..Default::default()
            }
        };
        let sched = if self.faults {
            SchedCfg {
                nonfifo_permille: [0, 100, 400][tape::choose(3) as usize],
                max_polls: 3_000_000,
                max_time: 2_000 * SEC,
                ..Default::default()
            }
        } else {
            SchedCfg {
                max_polls: 3_000_000,
                max_time: 2_000 * SEC,
                ..Default::default()
            }
        };

        let cfg = FullCfg {
            n_devices: 1,
            controllers: vec![CtlSpec {
                fabric_id: FABRIC_ID,
                node_id: CTL_NODE_ID,
                script: vec![
                    CtlStep::Commission { dev: 0 },
                    // Long enough for every restart and for an interrupted fail-safe to run out
                    CtlStep::Sleep { ms: 200_000 },
                    CtlStep::ReadOnOff { dev: 0 },
                    CtlStep::Sleep { ms: 5_000 },
                    CtlStep::ReadOnOff { dev: 0 },
                    CtlStep::Sleep { ms: 5_000 },
                    CtlStep::ReadOnOff { dev: 0 },
                ],
                continue_on_error: true,
            }],
            handlers: 3,
            net,
            sched,
            limit_us: 1_500 * SEC,
            kv_faults,
            crashes,
            restart_after_us: 300 * MS,
            cancels: vec![],
            calm_at_us: None,
        };
        let run = drive_full(seed, cfg);
        let mut out = Outcome::default();
        common_counters(&run, &mut out);

        let step_results: Vec<(&'static str, u16)> = run
            .log
            .iter()
            .filter_map(|e| match &e.kind {
                FullKind::Step {
                    name,
                    result: Some(r),
                } => Some((*name, *r)),
                _ => None,
            })
            .collect();
        let commission_ok = step_results.iter().any(|(n, r)| *n == "commission" && *r == 0xffff);
        let reads: Vec<u16> = step_results.iter().filter(|(n, _)| *n == "read_onoff").map(|(_, r)| *r).collect();
        let last_read_ok = reads.last().copied() == Some(0xffff);
        let startup_errs = run.log.iter().filter(|e| matches!(e.kind, FullKind::DeviceStartupErr(_))).count();
        let kv_fabric = run.kv_final.contains_key(&1);
        let mem_fabrics = run.dev_states[0].as_ref().map(|d| d.fabrics.clone()).unwrap_or_default();
        let describe = || {
            format!(
                "plan [{plan}] commission_ok={commission_ok} reads={reads:x?} incarnations={} kv_keys={:x?} mem_fabrics={:?} kv_log={:?}",
                run.device_incarnations,
                run.kv_final.keys().collect::<Vec<_>>(),
                mem_fabrics.iter().map(|f| (f.fab_idx, f.node_id, f.acl.len())).collect::<Vec<_>>(),
                run.kv
                    .iter()
                    .map(|k| match &k.op {
                        KvOp::Store(key, v) => format!("i{} store {key:#x} {}B ok={} applied={}", k.incarnation, v.len(), k.ok, k.applied),
                        KvOp::Remove(key) => format!("i{} remove {key:#x} ok={} applied={}", k.incarnation, k.ok, k.applied),
                        KvOp::Load(key) => format!("load {key:#x}"),
                    })
                    .collect::<Vec<_>>()
            )
        };

        if !run.all_done || matches!(run.stop, crate::kernel::StopReason::MaxPolls) {
            out.count("runs_incomplete", 1);
        } else {
            // ---- shared facts
            let complete = |f: &FabricInfo| f.node_id == device_node_id(0) && f.fabric_id == FABRIC_ID && !f.acl.is_empty() && f.root_hash != 0;
            match self.which {
                Which::C11 => {
                    if startup_errs > 0 {
                        out.violate("C11-startup-failed", describe());
                    }
                    if commission_ok {
                        out.count("commission_acknowledged", 1);
                        if !mem_fabrics.iter().any(complete) || !kv_fabric {
                            out.violate("C11-acknowledged-commissioning-lost", describe());
                        } else if !last_read_ok {
                            out.violate("C11-committed-device-not-reachable", describe());
                        }
                    }
                }
                Which::C08 => {
                    // All or nothing, also in memory, once the fail-safe had every chance to run out
                    if mem_fabrics.len() > 1 || mem_fabrics.iter().any(|f| !complete(f)) {
                        out.violate("C08-partial-fabric", describe());
                    }
                    if !mem_fabrics.is_empty() && !kv_fabric {
                        // Which history class? A failed store of the fabric blob at commit time is
                        // one (listed) finding; anything else is something new.
                        let commit_store_failed = run.kv.iter().any(|k| matches!(&k.op, KvOp::Store(1, _)) && !k.ok);
                        out.violate(
                            if commit_store_failed {
                                "C08-commit-store-error-leaves-live-fabric"
                            } else {
                                "C08-fabric-neither-committed-nor-rolled-back"
                            },
                            describe(),
                        );
                    }
                    if mem_fabrics.is_empty() && kv_fabric {
                        out.violate("C08-rolled-back-fabric-still-stored", describe());
                    }
                    if let Some(d) = &run.dev_states[0] {
                        if d.snap.failsafe.armed {
                            out.violate("C08-failsafe-still-armed", describe());
                        }
                        if mem_fabrics.is_empty() && d.snap.sessions.iter().any(|s| s.mode.fab_idx() != 0) {
                            out.violate("C08-session-of-rolled-back-fabric", describe());
                        }
                    }
                    if !commission_ok && last_read_ok && mem_fabrics.is_empty() {
                        out.violate("C08-read-served-without-fabric", describe());
                    }
                }
            }
        }
        out.count("commission_ok", commission_ok as u64);
        out.count("device_restarts", run.device_incarnations as u64 - 1);
        out.nontrivial = !run.fired.is_empty() && run.net.sent > 10;
        out.state_sigs.push((commission_ok as u64) << 2 | (kv_fabric as u64) << 1 | !mem_fabrics.is_empty() as u64);
        out.sample = Some(json!({"plan": plan, "commission_ok": commission_ok, "reads": reads, "incarnations": run.device_incarnations,
            "events": run.log.iter().take(14).map(|e| format!("t={} n{} {:?}", e.time, e.node, e.kind)).collect::<Vec<_>>()}));
        out
    }
}


fn results(run: &FullRun, node: usize) -> Vec<(&'static str, u16, u64)> {
    run.log
        .iter()
        .filter(|e| e.node == node)
        .filter_map(|e| match &e.kind {
            FullKind::Step { name, result: Some(r) } => Some((*name, *r, e.time)),
            _ => None,
        })
        .collect()
}

/// C08: an administrator arms the fail-safe over its CASE session, changes its fabric's ACL, and
/// the fail-safe ends in one of four ways: CommissioningComplete, time-out, forced expiry,
/// restart of the device. Afterwards the ACL is the new one (committed, also across a further
/// restart) or exactly the old one.
pub struct AclUnderFailSafe {
    pub faults: bool,
}

const EXTRA_SUBJECT: u64 = 0x0EAD_BEEF;

impl Scenario for AclUnderFailSafe {
    fn property(&self) -> &'static str {
        "C08"
    }
    fn name(&self) -> &'static str {
        if self.faults {
            "acl-under-failsafe-faults"
        } else {
            "acl-under-failsafe"
        }
    }

    fn run(&self, seed: u64) -> Outcome {
        let ending = tape::choose(4); // 0 complete, 1 time-out, 2 forced expiry, 3 restart
        let secs = 8 + tape::choose(20) as u16;
        let pause = tape::choose(4) * 700;
        let mut script = vec![
            CtlStep::Commission { dev: 0 },
            CtlStep::ReadOnOff { dev: 0 },
            CtlStep::ArmFailSafeChecked { dev: 0, secs },
            CtlStep::Sleep { ms: pause },
            CtlStep::AclWrite { dev: 0, subject: EXTRA_SUBJECT },
            CtlStep::Sleep { ms: pause },
        ];
        let mut crashes = Vec::new();
        match ending {
            0 => script.push(CtlStep::CommissioningCompleteCase { dev: 0 }),
            1 => script.push(CtlStep::Sleep { ms: secs as u32 * 1000 + 3_000 }),
            2 => script.push(CtlStep::ArmFailSafeChecked { dev: 0, secs: 0 }),
            _ => {
                // The commissioning takes well under 3 s of simulated time; the fail-safe is armed
                // for at least 8 s: a crash 3.5-6 s into the run falls inside it
                crashes.push(3_500_000 + tape::choose(25) as u64 * 100_000);
                script.push(CtlStep::Sleep { ms: 12_000 });
            }
        }
        script.push(CtlStep::Sleep { ms: 4_000 });
        script.push(CtlStep::ReadOnOff { dev: 0 });
        // A later restart must not change the picture
        let late_restart = 60_000_000 + tape::choose(10) as u64 * 1_000_000;
        crashes.push(late_restart);
        script.push(CtlStep::SleepUntil { ms: 80_000 });
        script.push(CtlStep::ReadOnOff { dev: 0 });

        let net = if self.faults && tape::chance(500) {
            UniformNet {
                latency_us: 500,
                jitter_us: 2000,
                drop_permille: [20, 80][tape::choose(2) as usize],
                dup_permille: 40,
                hold_permille: 40,
                hold_max_ms: 300,
                ..Default::default()
            }
        } else {
            UniformNet { latency_us: 1000, ..Default::default() }
        };
        let cfg = FullCfg {
            n_devices: 1,
            controllers: vec![CtlSpec { fabric_id: FABRIC_ID, node_id: CTL_NODE_ID, script, continue_on_error: true }],
            handlers: 3,
            net,
            sched: SchedCfg {
                nonfifo_permille: if self.faults { [0, 100, 300][tape::choose(3) as usize] } else { 0 },
                max_polls: 3_000_000,
                max_time: 2_000 * SEC,
                ..Default::default()
            },
            limit_us: 1_000 * SEC,
            kv_faults: vec![],
            crashes,
            restart_after_us: 300 * MS,
            cancels: vec![],
            calm_at_us: None,
        };
        // ACL of fabric 1 over time
        let mut acl_series: Vec<(u64, Vec<String>, bool)> = Vec::new();
        let run = drive_full_with(seed, cfg, &mut |t, states| {
            if let Some(Some(st)) = states.first() {
                // (a fabric which is not there has no ACL entries)
                let acl = st.fabrics.iter().find(|f| f.fab_idx == 1).map(|f| f.acl.clone()).unwrap_or_default();
                if acl_series.last().map(|(_, a, _)| a != &acl).unwrap_or(true) {
                    acl_series.push((t, acl, st.snap.failsafe.armed));
                }
            }
        });
        let mut out = Outcome::default();
        common_counters(&run, &mut out);
        let r = results(&run, 1);
        let ok = |name: &str, nth: usize| r.iter().filter(|(n, _, _)| *n == name).nth(nth).map(|(_, c, _)| *c == 0xffff).unwrap_or(false);
        // The scenario is about a commissioned device: the commissioning itself must have gone through
        let armed = ok("commission", 0) && ok("arm_failsafe_checked", 0);
        let written = ok("acl_write", 0);
        let has_extra = |acl: &Vec<String>| acl.iter().any(|e| e.contains(&format!("{}", EXTRA_SUBJECT)));
        let final_acl = acl_series.last().map(|(_, a, _)| a.clone());
        let describe = || {
            format!(
                "ending={} armed for {secs} s; steps {:?}; ACL of fabric 1 over time: {:?}",
                ["CommissioningComplete", "time-out", "ArmFailSafe(0)", "restart"][ending as usize],
                r.iter().filter(|(n, _, _)| *n != "sleep").map(|(n, c, t)| format!("{n}:{c:x}@{}", t / 1000)).collect::<Vec<_>>(),
                acl_series.iter().map(|(t, a, armed)| format!("t={} armed={} entries={} extra={}", t / 1000, armed, a.len(), has_extra(a))).collect::<Vec<_>>()
            )
        };
        if run.all_done && armed && written {
            out.count("c08_acl_written_under_failsafe", 1);
            let committed = match ending {
                0 => ok("commissioning_complete_case", 0),
                _ => false,
            };
            let ended_cleanly = match ending {
                0 => committed,
                2 => ok("arm_failsafe_checked", 1),
                _ => true,
            };
            if ended_cleanly {
                out.count(["c08_end_complete", "c08_end_timeout", "c08_end_forced", "c08_end_restart"][ending as usize], 1);
                // The picture right after the fail-safe ended (before the later restart) ...
                let t_after = r.iter().filter(|(n, _, _)| *n == "read_onoff").nth(1).map(|(_, _, t)| *t);
                if let Some(t_after) = t_after {
                    if t_after < late_restart {
                        if let Some((_, acl, _)) = acl_series.iter().filter(|(t, _, _)| *t <= t_after).last() {
                            if committed && !has_extra(acl) {
                                out.violate("C08-committed-change-lost", describe());
                            }
                            if !committed && (has_extra(acl) || acl.len() != 1) {
                                out.violate("C08-change-survives-failsafe-end", describe());
                            }
                        }
                    }
                }
                // ... and after it
                match &final_acl {
                    Some(acl) => {
                        if committed && !has_extra(acl) {
                            out.violate("C08-committed-change-lost", describe());
                        }
                        if !committed && (has_extra(acl) || acl.len() != 1) {
                            out.violate("C08-change-survives-failsafe-end", describe());
                        }
                    }
                    None => out.violate("C08-fabric-lost", describe()),
                }
            }
        } else {
            out.count("runs_incomplete", 1);
        }
        out.nontrivial = armed && written;
        out.state_sigs.push(ending as u64);
        let ending_name = ["CommissioningComplete", "time-out", "ArmFailSafe(0)", "restart"][ending as usize];
        out.sample = Some(json!({"ending": ending_name, "armed_secs": secs,
            "steps": r.iter().filter(|(n, _, _)| *n != "sleep").map(|(n, c, t)| format!("{n}:{c:x}@{}ms", t / 1000)).collect::<Vec<_>>()}));
        out
    }
}

/// C08: while a commissioner holds a fail-safe armed over PASE (before AddNOC), the
/// administrator of an existing fabric sends fail-safe commands over its CASE session: they are
/// refused and change nothing.
pub struct ForeignAdminDuringPaseFailSafe {
    pub faults: bool,
}

impl Scenario for ForeignAdminDuringPaseFailSafe {
    fn property(&self) -> &'static str {
        "C08"
    }
    fn name(&self) -> &'static str {
        if self.faults {
            "foreign-admin-during-pase-failsafe-faults"
        } else {
            "foreign-admin-during-pase-failsafe"
        }
    }

    fn run(&self, seed: u64) -> Outcome {
        let what = tape::choose(3); // 0 ArmFailSafe(30), 1 CommissioningComplete, 2 ArmFailSafe(0)
        let b_start = 8_000 + tape::choose(6) * 500;
        let a_delay = 300 + tape::choose(30) * 400;
        let mut a_script = vec![
            CtlStep::Commission { dev: 0 },
            CtlStep::OpenWindow { dev: 0, secs: 600 },
            CtlStep::SleepUntil { ms: b_start + a_delay },
        ];
        a_script.push(match what {
            0 => CtlStep::ArmFailSafeChecked { dev: 0, secs: 30 },
            1 => CtlStep::CommissioningCompleteCase { dev: 0 },
            _ => CtlStep::ArmFailSafeChecked { dev: 0, secs: 0 },
        });
        a_script.push(CtlStep::Sleep { ms: 2_000 });
        a_script.push(CtlStep::ReadOnOff { dev: 0 });
        let b_script = vec![
            CtlStep::SleepUntil { ms: b_start },
            // Establishing PASE arms the fail-safe for the commissioner
            CtlStep::PaseAttempt { dev: 0, passcode: TEST_PASSCODE },
            CtlStep::Sleep { ms: 30_000 },
        ];
        let net = if self.faults && tape::chance(500) {
            UniformNet {
                latency_us: 500,
                jitter_us: 2000,
                drop_permille: [20, 80][tape::choose(2) as usize],
                dup_permille: 40,
                hold_permille: 40,
                hold_max_ms: 300,
                ..Default::default()
            }
        } else {
            UniformNet { latency_us: 1000, ..Default::default() }
        };
        let cfg = FullCfg {
            n_devices: 1,
            controllers: vec![
                CtlSpec { fabric_id: FABRIC_ID, node_id: CTL_NODE_ID, script: a_script, continue_on_error: true },
                CtlSpec { fabric_id: 2, node_id: CTL_NODE_ID + 1, script: b_script, continue_on_error: true },
            ],
            handlers: 3,
            net,
            sched: SchedCfg {
                nonfifo_permille: if self.faults { [0, 100, 300][tape::choose(3) as usize] } else { 0 },
                max_polls: 3_000_000,
                max_time: 2_000 * SEC,
                ..Default::default()
            },
            limit_us: 1_000 * SEC,
            kv_faults: vec![],
            crashes: vec![],
            restart_after_us: 300 * MS,
            cancels: vec![],
            calm_at_us: None,
        };
        // Fail-safe context, window and PASE sessions over time
        let mut series: Vec<(u64, bool, u8, bool, usize)> = Vec::new();
        let run = drive_full_with(seed, cfg, &mut |t, states| {
            if let Some(Some(st)) = states.first() {
                let pase = st
                    .snap
                    .sessions
                    .iter()
                    .filter(|s| matches!(s.mode, rs_matter::transport::session::SessionMode::Pase { .. }) && !s.expired)
                    .count();
                let cur = (st.snap.failsafe.armed, st.snap.failsafe.fab_idx, st.window_open, pase);
                if series.last().map(|l| (l.1, l.2, l.3, l.4) != cur).unwrap_or(true) {
                    series.push((t, cur.0, cur.1, cur.2, cur.3));
                }
            }
        });
        let mut out = Outcome::default();
        common_counters(&run, &mut out);
        let a = results(&run, 1);
        let b = results(&run, 2);
        let pase_ok = b.iter().find(|(n, _, _)| *n == "pase_attempt").map(|(_, c, t)| (*c == 0xffff, *t));
        let cmd = a
            .iter()
            .find(|(n, _, _)| *n == "arm_failsafe_checked" || *n == "commissioning_complete_case")
            .map(|(n, c, t)| (*n, *c, *t));
        let describe = || {
            format!(
                "foreign command {:?}; A {:?}; B {:?}; device (t ms, armed, fail-safe fabric, window open, PASE sessions): {:?}",
                ["ArmFailSafe(30)", "CommissioningComplete", "ArmFailSafe(0)"][what as usize],
                a.iter().filter(|(n, _, _)| *n != "sleep").map(|(n, c, t)| format!("{n}:{c:x}@{}", t / 1000)).collect::<Vec<_>>(),
                b.iter().filter(|(n, _, _)| *n != "sleep").map(|(n, c, t)| format!("{n}:{c:x}@{}", t / 1000)).collect::<Vec<_>>(),
                series.iter().map(|(t, ar, f, w, p)| (t / 1000, *ar, *f, *w, *p)).collect::<Vec<_>>()
            )
        };
        // The scenario is about a commissioned device whose own fail-safe has ended
        let commissioned = a.iter().any(|(n, c, t)| {
            *n == "commission" && *c == 0xffff && pase_ok.map(|(_, tp)| *t + 2 * SEC < tp).unwrap_or(false)
        }) && a.iter().any(|(n, c, t)| *n == "open_window" && *c == 0xffff && pase_ok.map(|(_, tp)| *t < tp).unwrap_or(false));
        if let (true, Some((true, t_pase)), Some((_, code, t_cmd))) = (run.all_done && commissioned, pase_ok, cmd) {
            // The command arrived while the PASE-armed fail-safe was certainly still running
            // (it lasts 60 s from the PASE establishment)
            // (B saw its PASE session established: the device had armed the fail-safe before that;
            // A's command was *sent* after that instant - an answer that merely arrived later may
            // belong to a command the device handled before the fail-safe was armed)
            let t_cmd_start = run
                .log
                .iter()
                .filter(|e| e.node == 1)
                .find_map(|e| match &e.kind {
                    FullKind::Step { name, result: None } if *name == "arm_failsafe_checked" || *name == "commissioning_complete_case" => Some(e.time),
                    _ => None,
                })
                .unwrap_or(0);
            if t_cmd_start > t_pase && t_cmd < t_pase + 40 * SEC {
                out.count("c08_foreign_commands_during_pase_failsafe", 1);
                if code == 0xffff {
                    out.violate("C08-foreign-context-accepted", describe());
                }
                // Nothing changed: still armed for "no fabric", window open, PASE session alive,
                // from the PASE establishment until 5 s after the command
                let disturbed = series.iter().any(|(t, armed, f, w, p)| {
                    *t > t_pase + 200 * MS && *t < t_cmd + 5 * SEC && (!*armed || *f != 0 || !*w || *p == 0)
                });
                if disturbed {
                    out.violate("C08-foreign-command-changed-failsafe", describe());
                }
            }
        } else {
            out.count("runs_incomplete", 1);
        }
        out.nontrivial = pase_ok.map(|p| p.0).unwrap_or(false);
        out.state_sigs.push(what as u64);
        let what_name = ["ArmFailSafe(30)", "CommissioningComplete", "ArmFailSafe(0)"][what as usize];
        out.sample = Some(json!({"foreign_command": what_name,
            "A": a.iter().filter(|(n, _, _)| *n != "sleep").map(|(n, c, t)| format!("{n}:{c:x}@{}ms", t / 1000)).collect::<Vec<_>>()}));
        out
    }
}


/// C11: administrative changes which were confirmed to the peer outside of the peer's own
/// fail-safe - an ACL write (optionally while another commissioner holds a fail-safe over PASE),
/// a fabric removal that leaves a hole in the fabric indices - survive a restart.
pub struct ConfirmedChangesSurviveRestart {
    pub faults: bool,
}

impl Scenario for ConfirmedChangesSurviveRestart {
    fn property(&self) -> &'static str {
        "C11"
    }
    fn name(&self) -> &'static str {
        if self.faults {
            "confirmed-changes-then-restart-faults"
        } else {
            "confirmed-changes-then-restart"
        }
    }

    fn run(&self, seed: u64) -> Outcome {
        // 0 ACL write, 1 ACL write during a foreign PASE fail-safe, 2 removal of fabric 1 by fabric 2,
        // 3 group keys + AddGroup + a second AddGroup which only renames the group
        let action = tape::choose(4);
        let t_action = 12_000 + tape::choose(8) * 500;
        let crash_at = (t_action as u64 + 300 + tape::choose(30) as u64 * 100) * 1000;
        let mut a_script = vec![CtlStep::Commission { dev: 0 }, CtlStep::OpenWindow { dev: 0, secs: 900 }];
        let mut b_script = vec![CtlStep::Sleep { ms: 4_000 }, CtlStep::Commission { dev: 0 }, CtlStep::ReadOnOff { dev: 0 }];
        let mut c_script = vec![];
        match action {
            0 | 1 => {
                if action == 1 {
                    // A third commissioner establishes PASE shortly before: its fail-safe is armed
                    a_script.push(CtlStep::SleepUntil { ms: 9_000 });
                    a_script.push(CtlStep::OpenWindow { dev: 0, secs: 900 });
                    c_script.push(CtlStep::SleepUntil { ms: t_action - 1_000 - tape::choose(4) * 200 });
                    c_script.push(CtlStep::PaseAttempt { dev: 0, passcode: TEST_PASSCODE });
                    c_script.push(CtlStep::Sleep { ms: 20_000 });
                }
                a_script.push(CtlStep::SleepUntil { ms: t_action });
                a_script.push(CtlStep::AclWrite { dev: 0, subject: EXTRA_SUBJECT });
            }
            2 => {
                b_script.push(CtlStep::SleepUntil { ms: t_action });
                b_script.push(CtlStep::RemoveFabric { dev: 0, fabric_index: 1 });
            }
            _ => {
                a_script.push(CtlStep::SleepUntil { ms: 9_000 });
                a_script.push(CtlStep::GroupKeys { dev: 0 });
                a_script.push(CtlStep::AddGroup { dev: 0, name: "first" });
                a_script.push(CtlStep::SleepUntil { ms: t_action });
                a_script.push(CtlStep::AddGroup { dev: 0, name: "second" });
            }
        }
        // After the restart: the surviving administrators read (twice: the first attempt may run
        // into the stale session)
        a_script.push(CtlStep::SleepUntil { ms: 40_000 });
        a_script.push(CtlStep::ReadOnOff { dev: 0 });
        a_script.push(CtlStep::ReadOnOff { dev: 0 });
        b_script.push(CtlStep::SleepUntil { ms: 40_000 });
        b_script.push(CtlStep::ReadOnOff { dev: 0 });
        b_script.push(CtlStep::ReadOnOff { dev: 0 });
        let net = if self.faults && tape::chance(500) {
            UniformNet {
                latency_us: 500,
                jitter_us: 2000,
                drop_permille: [20, 60][tape::choose(2) as usize],
                dup_permille: 40,
                hold_permille: 40,
                hold_max_ms: 300,
                ..Default::default()
            }
        } else {
            UniformNet { latency_us: 1000, ..Default::default() }
        };
        let mut controllers = vec![
            CtlSpec { fabric_id: FABRIC_ID, node_id: CTL_NODE_ID, script: a_script, continue_on_error: true },
            CtlSpec { fabric_id: 2, node_id: CTL_NODE_ID + 1, script: b_script, continue_on_error: true },
        ];
        if !c_script.is_empty() {
            controllers.push(CtlSpec { fabric_id: 3, node_id: CTL_NODE_ID + 2, script: c_script, continue_on_error: true });
        }
        let cfg = FullCfg {
            n_devices: 1,
            controllers,
            handlers: 4,
            net,
            sched: SchedCfg {
                nonfifo_permille: if self.faults { [0, 100, 300][tape::choose(3) as usize] } else { 0 },
                max_polls: 4_000_000,
                max_time: 2_000 * SEC,
                ..Default::default()
            },
            limit_us: 1_000 * SEC,
            kv_faults: vec![],
            crashes: vec![crash_at],
            restart_after_us: 300 * MS,
            cancels: vec![],
            calm_at_us: None,
        };
        // (time, fabric indices present, ACL size of fabric 1, extra entry present)
        let mut series: Vec<(u64, Vec<u8>, usize, bool)> = Vec::new();
        // Group state of fabric 1 over time
        let mut groups: Vec<(u64, Vec<String>)> = Vec::new();
        let run = drive_full_with(seed, cfg, &mut |t, states| {
            if let Some(Some(st)) = states.first() {
                let g = st.fabrics.iter().find(|f| f.fab_idx == 1).map(|f| f.groups.clone()).unwrap_or_default();
                if groups.last().map(|l| l.1 != g).unwrap_or(true) {
                    groups.push((t, g));
                }
                let idx: Vec<u8> = st.fabrics.iter().map(|f| f.fab_idx).collect();
                let acl = st.fabrics.iter().find(|f| f.fab_idx == 1).map(|f| f.acl.clone()).unwrap_or_default();
                let extra = acl.iter().any(|e| e.contains(&format!("{}", EXTRA_SUBJECT)));
                let cur = (idx, acl.len(), extra);
                if series.last().map(|l| (l.1.clone(), l.2, l.3) != cur).unwrap_or(true) {
                    series.push((t, cur.0, cur.1, cur.2));
                }
            }
        });
        let mut out = Outcome::default();
        common_counters(&run, &mut out);
        let a = results(&run, 1);
        let b = results(&run, 2);
        let ok = |r: &Vec<(&'static str, u16, u64)>, name: &str| r.iter().find(|(n, _, _)| *n == name).map(|(_, c, t)| (*c == 0xffff, *t));
        let both_commissioned = ok(&a, "commission").map(|x| x.0).unwrap_or(false) && ok(&b, "commission").map(|x| x.0).unwrap_or(false);
        let describe = || {
            format!(
                "action {}; crash at t={} us; A {:?}; B {:?}; device (t ms, fabric indices, ACL entries of fabric 1, extra entry): {:?}; incarnations {}",
                ["ACL write", "ACL write during a foreign PASE fail-safe", "RemoveFabric(1) by fabric 2", "group keys, AddGroup, renaming AddGroup"][action as usize],
                crash_at,
                a.iter().filter(|(n, _, _)| *n != "sleep").map(|(n, c, t)| format!("{n}:{c:x}@{}", t / 1000)).collect::<Vec<_>>(),
                b.iter().filter(|(n, _, _)| *n != "sleep").map(|(n, c, t)| format!("{n}:{c:x}@{}", t / 1000)).collect::<Vec<_>>(),
                series.iter().map(|(t, i, n, e)| (t / 1000, i.clone(), *n, *e)).collect::<Vec<_>>(),
                run.device_incarnations
            )
        };
        let fin = series.last().cloned();
        if run.all_done && both_commissioned && run.device_incarnations >= 2 {
            match action {
                0 | 1 => {
                    if let Some((true, t_ack)) = ok(&a, "acl_write") {
                        if t_ack < crash_at {
                            out.count("c11_acl_writes_confirmed_before_restart", 1);
                            if !fin.as_ref().map(|f| f.3).unwrap_or(false) {
                                out.violate("C11-confirmed-change-lost", describe());
                            }
                        }
                    }
                    // Both fabrics are still there in any case
                    if fin.as_ref().map(|f| f.1 != vec![1, 2]).unwrap_or(true) {
                        out.violate("C11-fabric-lost-over-restart", describe());
                    }
                }
                3 => {
                    // What was confirmed before the crash is there after the restart: the key set,
                    // the key map entry, the group on endpoint 1 - under the name of the last
                    // confirmed AddGroup
                    let adds: Vec<(bool, u64)> = a.iter().filter(|(n, _, _)| *n == "add_group").map(|(_, c, t)| (*c == 0xffff, *t)).collect();
                    let keys_ok = matches!(ok(&a, "group_keys"), Some((true, t)) if t < crash_at);
                    let fin_groups = groups.last().map(|g| g.1.clone()).unwrap_or_default();
                    let describe_g = || format!("{}; group state of fabric 1 over time (t ms): {:?}", describe(), groups.iter().map(|(t, g)| (t / 1000, g.clone())).collect::<Vec<_>>());
                    if keys_ok {
                        out.count("c11_group_key_writes_confirmed_before_restart", 1);
                        if !fin_groups.iter().any(|g| g.starts_with("key set")) || !fin_groups.iter().any(|g| g.starts_with("map ")) {
                            out.violate("C11-confirmed-change-lost", describe_g());
                        }
                    }
                    let confirmed: Vec<&str> = adds.iter().zip(["first", "second"]).filter(|((okk, t), _)| *okk && *t < crash_at).map(|(_, n)| n).collect();
                    if let Some(last) = confirmed.last() {
                        out.count("c11_group_writes_confirmed_before_restart", 1);
                        let in_flight_second = adds.len() < 2 || !(adds[1].0 && adds[1].1 < crash_at);
                        let has = |name: &str| fin_groups.iter().any(|g| g.starts_with("group ") && g.contains(&format!("\"{name}\"")));
                        // (a second AddGroup that was in flight at the crash may or may not have made it)
                        let fine = has(last) || (*last == "first" && in_flight_second && has("second"));
                        if !fine {
                            out.violate("C11-confirmed-change-lost", describe_g());
                        }
                    }
                    if fin.as_ref().map(|f| f.1 != vec![1, 2]).unwrap_or(true) {
                        out.violate("C11-fabric-lost-over-restart", describe());
                    }
                }
                _ => {
                    if let Some((true, t_ack)) = ok(&b, "remove_fabric") {
                        if t_ack < crash_at {
                            out.count("c11_removals_confirmed_before_restart", 1);
                            if fin.as_ref().map(|f| f.1 != vec![2]).unwrap_or(true) {
                                out.violate("C11-fabric-lost-over-restart", describe());
                            }
                            // The surviving fabric's administrator is served again
                            if !self.faults && !b.iter().rev().take(2).any(|(n, c, _)| *n == "read_onoff" && *c == 0xffff) {
                                out.violate("C11-committed-device-not-reachable", describe());
                            }
                        }
                    }
                }
            }
        } else {
            out.count("runs_incomplete", 1);
        }
        out.nontrivial = both_commissioned && run.device_incarnations >= 2;
        out.state_sigs.push(action as u64);
        let action_name = ["ACL write", "ACL write during a foreign PASE fail-safe", "RemoveFabric(1) by fabric 2", "group keys, AddGroup, renaming AddGroup"][action as usize];
        out.sample = Some(json!({"action": action_name, "crash_at_us": crash_at,
            "A": a.iter().filter(|(n, _, _)| *n != "sleep").map(|(n, c, t)| format!("{n}:{c:x}@{}ms", t / 1000)).collect::<Vec<_>>()}));
        out
    }
}

/// C11: the optional cache (CASE resumption records) is damaged while the device is down. The
/// device starts all the same, with everything committed, and serves its administrator again.
pub struct DamagedResumptionCache;

impl Scenario for DamagedResumptionCache {
    fn property(&self) -> &'static str {
        "C11"
    }
    fn name(&self) -> &'static str {
        "damaged-resumption-cache"
    }

    fn run(&self, seed: u64) -> Outcome {
        use crate::worlds::full_drive::{set_blob_damage, BlobDamage};
        let damage = match tape::choose(7) {
            0 => BlobDamage::FlipBit(tape::choose(4) as usize, tape::choose(8) as u8),
            1 => BlobDamage::Empty,
            2 => BlobDamage::Truncate(tape::choose(200) as usize),
            3 => BlobDamage::FlipBit(tape::choose(400) as usize, tape::choose(8) as u8),
            4 => BlobDamage::SetByte(tape::choose(400) as usize, tape::choose(256) as u8),
            5 => BlobDamage::Garbage(tape::choose(300) as usize, tape::choose(1 << 20) as u64),
            _ => BlobDamage::Extend(1 + tape::choose(40) as usize, tape::choose(1 << 20) as u64),
        };
        let two_fabrics = tape::choose(2) == 1;
        // The cache is flushed every 2 s; the crash comes after that
        let crash_at = (14_000 + tape::choose(20) as u64 * 250) * 1000;
        let a_script = vec![
            CtlStep::Commission { dev: 0 },
            CtlStep::ReadOnOff { dev: 0 },
            CtlStep::OpenWindow { dev: 0, secs: 900 },
            CtlStep::SleepUntil { ms: 30_000 },
            CtlStep::ReadOnOff { dev: 0 },
            CtlStep::ReadOnOff { dev: 0 },
            CtlStep::Toggle { dev: 0 },
        ];
        let b_script = if two_fabrics {
            vec![
                CtlStep::Sleep { ms: 4_000 },
                CtlStep::Commission { dev: 0 },
                CtlStep::ReadOnOff { dev: 0 },
                CtlStep::SleepUntil { ms: 30_000 },
                CtlStep::ReadOnOff { dev: 0 },
                CtlStep::ReadOnOff { dev: 0 },
            ]
        } else {
            vec![]
        };
        let cfg = FullCfg {
            n_devices: 1,
            controllers: vec![
                CtlSpec { fabric_id: 1, node_id: CTL_NODE_ID, script: a_script, continue_on_error: true },
                CtlSpec { fabric_id: 2, node_id: CTL_NODE_ID, script: b_script, continue_on_error: true },
            ],
            handlers: 3,
            net: UniformNet { latency_us: 1000, ..Default::default() },
            sched: SchedCfg { max_polls: 3_000_000, max_time: 1_000 * SEC, ..Default::default() },
            limit_us: 600 * SEC,
            kv_faults: vec![],
            crashes: vec![crash_at],
            restart_after_us: 300 * MS,
            cancels: vec![],
            calm_at_us: None,
        };
        set_blob_damage(Some((rs_matter::persist::CASE_RESUMPTION_KEY, damage.clone())));
        let run = drive_full(seed, cfg);
        let mut out = Outcome::default();
        common_counters(&run, &mut out);
        let a = results(&run, 1);
        let b = results(&run, 2);
        let damaged = run.fired.get("blob_damaged_while_down").copied().unwrap_or(0) > 0;
        let commissioned = a.iter().any(|(n, c, _)| *n == "commission" && *c == 0xffff)
            && (!two_fabrics || b.iter().any(|(n, c, _)| *n == "commission" && *c == 0xffff));
        let startup_errs: Vec<u16> = run
            .log
            .iter()
            .filter_map(|e| match e.kind {
                FullKind::DeviceStartupErr(c) => Some(c),
                _ => None,
            })
            .collect();
        let describe = || {
            format!(
                "damage {damage:?}; start-up errors {startup_errs:x?}; A {:?}; B {:?}; fabrics after the restart {:?}",
                a.iter().filter(|(n, _, _)| *n != "sleep").map(|(n, c, t)| format!("{n}:{c:x}@{}", t / 1000)).collect::<Vec<_>>(),
                b.iter().filter(|(n, _, _)| *n != "sleep").map(|(n, c, t)| format!("{n}:{c:x}@{}", t / 1000)).collect::<Vec<_>>(),
                run.dev_states[0].as_ref().map(|d| d.fabrics.iter().map(|f| f.fab_idx).collect::<Vec<_>>())
            )
        };
        if run.all_done && commissioned && damaged && run.device_incarnations == 2 {
            out.count("c11_restarts_with_damaged_cache", 1);
            if !startup_errs.is_empty() {
                out.violate("C11-damaged-cache-prevents-start-up", describe());
            }
            let want = if two_fabrics { vec![1u8, 2] } else { vec![1u8] };
            let have = run.dev_states[0].as_ref().map(|d| d.fabrics.iter().map(|f| f.fab_idx).collect::<Vec<_>>()).unwrap_or_default();
            if have != want {
                out.violate("C11-fabric-lost-over-restart", describe());
            }
            // Not part of the statement, only counted: a record which still parses but is wrong
            // (e.g. a bit flipped in the stored peer node id) can leave the administrator with
            // resumptions that succeed and sessions that do not work
            let a_served = a.iter().rev().take(3).any(|(n, c, _)| *n == "read_onoff" && *c == 0xffff);
            let b_served = !two_fabrics || b.iter().rev().take(2).any(|(n, c, _)| *n == "read_onoff" && *c == 0xffff);
            if a_served && b_served {
                out.count("probe_administrators_served_after_damage", 1);
            } else {
                out.count("observed_administrator_not_served_after_damage", 1);
            }
        } else {
            out.count("runs_incomplete", 1);
        }
        out.nontrivial = damaged;
        out.state_sigs.push(match damage {
            BlobDamage::Empty => 1,
            BlobDamage::Truncate(n) => 0x100 + n as u64,
            BlobDamage::FlipBit(i, b) => 0x10000 + (i as u64) * 8 + b as u64,
            BlobDamage::SetByte(i, _) => 0x20000 + i as u64,
            BlobDamage::Garbage(n, _) => 0x30000 + n as u64,
            BlobDamage::Extend(n, _) => 0x40000 + n as u64,
        });
        out.sample = Some(json!({"damage": format!("{damage:?}"), "two_fabrics": two_fabrics, "crash_at_us": crash_at, "start_up_errors": startup_errs}));
        out
    }
}

pub fn defs() -> Vec<PropertyDef> {
    let mk = |which: Which, id: &'static str| PropertyDef {
        id,
        level: "fault_enumeration",
        families: vec![
            Family {
                scenario: Box::new(CommissionCrash { which, faults: false }),
                weight: 1,
                fault_free: true,
            },
            Family {
                scenario: Box::new(CommissionCrash { which, faults: true }),
                weight: 8,
                fault_free: false,
            },
        ],
        rule: "one run = full commissioning (PASE, attestation, CSR, AddTrustedRoot, AddNOC, CASE, CommissioningComplete) of a real device by a real Commissioner, with one fault plan: KvBlobStore error / crash-before / crash-after at mutating store operation k (every k of the history), crash between polls at a microsecond-resolution instant of the conversation, a second crash during recovery, combined with light network faults and scheduler deviations; then 200 s for restarts and fail-safe expiry and three verification reads over a fresh CASE session; distinct = distinct trace hash; non-trivial = a fault fired and the conversation exchanged > 10 datagrams",
        assumptions: vec![
            "KvBlobStore contract: each store/remove is atomic per key and durable when it returns Ok (torn writes inside one blob belong to a concrete back-end, not simulated)",
            "Ethernet device (DummyNetworks): the network-credential half of the statement is not exercised in this family",
            "harness, oracles trusted; sampling over fault positions (the KV op index space is covered exhaustively only by volume, reported in counters)",
        ],
        real: "whole device stack: transport, secure channel (PASE, CASE), Interaction Model, general commissioning / operational credentials / access control clusters, fail-safe, fabric persistence, Matter::startup; controller: Commissioner, CASE initiator, IM client",
        stubbed: "network, clock, RNG, KV back-end (SimKv with fault injection), mDNS (stub resolver), device attestation (in-crate test DAC), application cluster (test OnOff)",
        budget_s: (60, 600),
    };
    let mut c08 = mk(Which::C08, "C08");
    for (sc, w, ff) in [
        (Box::new(AclUnderFailSafe { faults: false }) as Box<dyn Scenario>, 2, true),
        (Box::new(AclUnderFailSafe { faults: true }), 2, false),
        (Box::new(ForeignAdminDuringPaseFailSafe { faults: false }), 2, true),
        (Box::new(ForeignAdminDuringPaseFailSafe { faults: true }), 2, false),
    ] {
        c08.families.push(Family { scenario: sc, weight: w, fault_free: ff });
    }
    c08.budget_s = (100, 900);
    let mut c11 = mk(Which::C11, "C11");
    c11.families.push(Family { scenario: Box::new(ConfirmedChangesSurviveRestart { faults: false }), weight: 3, fault_free: false });
    c11.families.push(Family { scenario: Box::new(ConfirmedChangesSurviveRestart { faults: true }), weight: 2, fault_free: false });
    c11.families.push(Family { scenario: Box::new(DamagedResumptionCache), weight: 2, fault_free: false });
    c11.budget_s = (90, 900);
    vec![c08, c11]
}
