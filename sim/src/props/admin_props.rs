//! C08 / C11: commissioning under the fail-safe is all-or-nothing; persisted state survives a
//! crash at any point. Full world, crash / KV-error injection at every store of the history.

use serde_json::json;

use crate::kernel::{SchedCfg, MS, SEC};
use crate::kv::{KvFault, KvOp};
use crate::props::full_props::common_counters;
use crate::props::{Family, PropertyDef};
use crate::runner::{Outcome, Scenario};
use crate::tape;
use crate::worlds::full::*;
use crate::worlds::full_drive::*;

const CTL_NODE_ID: u64 = 112233;
const FABRIC_ID: u64 = 1;

#[derive(Clone, Copy, PartialEq, Eq)]
pub enum Which {
    C08,
    C11,
}

pub struct CommissionCrash {
    pub which: Which,
    pub faults: bool,
}

impl Scenario for CommissionCrash {
    fn property(&self) -> &'static str {
        match self.which {
            Which::C08 => "C08",
            Which::C11 => "C11",
        }
    }
    fn name(&self) -> &'static str {
        if self.faults {
            "commission-crash"
        } else {
            "commission-fault-free"
        }
    }

    fn run(&self, seed: u64) -> Outcome {
        // ---- fault plan
        let mut kv_faults = Vec::new();
        let mut crashes = Vec::new();
        let mut plan = String::from("none");
        if self.faults {
            match tape::choose(4) {
                0 => {
                    let k = tape::choose(5) as usize;
                    let f = [KvFault::Err, KvFault::CrashBefore, KvFault::CrashAfter][tape::choose(3) as usize];
                    kv_faults.push((k, f));
                    plan = format!("kv op {k} {f:?}");
                }
                1 => {
                    // crash between polls somewhere inside the commissioning conversation
                    let t = tape::choose(45_000) as u64;
                    crashes.push(t);
                    plan = format!("crash at t={t}us");
                }
                2 => {
                    let k = tape::choose(5) as usize;
                    kv_faults.push((k, KvFault::Err));
                    let t = 20_000 + tape::choose(200_000) as u64 * 1000;
                    crashes.push(t);
                    plan = format!("kv op {k} Err + crash at t={t}us");
                }
                _ => {
                    let t = tape::choose(45_000) as u64;
                    let t2 = t + 1_000_000 + tape::choose(3_000_000) as u64;
                    crashes.push(t);
                    crashes.push(t2);
                    plan = format!("crashes at t={t}us and t={t2}us");
                }
            }
        }
        let net = if self.faults && tape::chance(300) {
            UniformNet {
                latency_us: 500,
                jitter_us: 2000,
                drop_permille: [20, 100][tape::choose(2) as usize],
                dup_permille: 50,
                hold_permille: 50,
                hold_max_ms: 300,
                ..Default::default()
            }
        } else {
            UniformNet {
                latency_us: 1000,
                ..Default::default()
            }
        };
        let sched = if self.faults {
            SchedCfg {
                nonfifo_permille: [0, 100, 400][tape::choose(3) as usize],
                max_polls: 3_000_000,
                max_time: 2_000 * SEC,
                ..Default::default()
            }
        } else {
            SchedCfg {
                max_polls: 3_000_000,
                max_time: 2_000 * SEC,
                ..Default::default()
            }
        };

        let cfg = FullCfg {
            n_devices: 1,
            controllers: vec![CtlSpec {
                fabric_id: FABRIC_ID,
                node_id: CTL_NODE_ID,
                script: vec![
                    CtlStep::Commission { dev: 0 },
                    // Long enough for every restart and for an interrupted fail-safe to run out
                    CtlStep::Sleep { ms: 200_000 },
                    CtlStep::ReadOnOff { dev: 0 },
                    CtlStep::Sleep { ms: 5_000 },
                    CtlStep::ReadOnOff { dev: 0 },
                    CtlStep::Sleep { ms: 5_000 },
                    CtlStep::ReadOnOff { dev: 0 },
                ],
                continue_on_error: true,
            }],
            handlers: 3,
            net,
            sched,
            limit_us: 1_500 * SEC,
            kv_faults,
            crashes,
            restart_after_us: 300 * MS,
            cancels: vec![],
            calm_at_us: None,
        };
        let run = drive_full(seed, cfg);
        let mut out = Outcome::default();
        common_counters(&run, &mut out);

        let step_results: Vec<(&'static str, u16)> = run
            .log
            .iter()
            .filter_map(|e| match &e.kind {
                FullKind::Step {
                    name,
                    result: Some(r),
                } => Some((*name, *r)),
                _ => None,
            })
            .collect();
        let commission_ok = step_results.iter().any(|(n, r)| *n == "commission" && *r == 0xffff);
        let reads: Vec<u16> = step_results.iter().filter(|(n, _)| *n == "read_onoff").map(|(_, r)| *r).collect();
        let last_read_ok = reads.last().copied() == Some(0xffff);
        let startup_errs = run.log.iter().filter(|e| matches!(e.kind, FullKind::DeviceStartupErr(_))).count();
        let kv_fabric = run.kv_final.contains_key(&1);
        let mem_fabrics = run.dev_states[0].as_ref().map(|d| d.fabrics.clone()).unwrap_or_default();
        let describe = || {
            format!(
                "plan [{plan}] commission_ok={commission_ok} reads={reads:x?} incarnations={} kv_keys={:x?} mem_fabrics={:?} kv_log={:?}",
                run.device_incarnations,
                run.kv_final.keys().collect::<Vec<_>>(),
                mem_fabrics.iter().map(|f| (f.fab_idx, f.node_id, f.acl.len())).collect::<Vec<_>>(),
                run.kv
                    .iter()
                    .map(|k| match &k.op {
                        KvOp::Store(key, v) => format!("i{} store {key:#x} {}B ok={} applied={}", k.incarnation, v.len(), k.ok, k.applied),
                        KvOp::Remove(key) => format!("i{} remove {key:#x} ok={} applied={}", k.incarnation, k.ok, k.applied),
                        KvOp::Load(key) => format!("load {key:#x}"),
                    })
                    .collect::<Vec<_>>()
            )
        };

        if !run.all_done || matches!(run.stop, crate::kernel::StopReason::MaxPolls) {
            out.count("runs_incomplete", 1);
        } else {
            // ---- shared facts
            let complete = |f: &FabricInfo| f.node_id == device_node_id(0) && f.fabric_id == FABRIC_ID && !f.acl.is_empty() && f.root_hash != 0;
            match self.which {
                Which::C11 => {
                    if startup_errs > 0 {
                        out.violate("C11-startup-failed", describe());
                    }
                    if commission_ok {
                        out.count("commission_acknowledged", 1);
                        if !mem_fabrics.iter().any(complete) || !kv_fabric {
                            out.violate("C11-acknowledged-commissioning-lost", describe());
                        } else if !last_read_ok {
                            out.violate("C11-committed-device-not-reachable", describe());
                        }
                    }
                }
                Which::C08 => {
                    // All or nothing, also in memory, once the fail-safe had every chance to run out
                    if mem_fabrics.len() > 1 || mem_fabrics.iter().any(|f| !complete(f)) {
                        out.violate("C08-partial-fabric", describe());
                    }
                    if !mem_fabrics.is_empty() && !kv_fabric {
                        // Which history class? A failed store of the fabric blob at commit time is
                        // one (listed) finding; anything else is something new.
                        let commit_store_failed = run.kv.iter().any(|k| matches!(&k.op, KvOp::Store(1, _)) && !k.ok);
                        out.violate(
                            if commit_store_failed {
                                "C08-commit-store-error-leaves-live-fabric"
                            } else {
                                "C08-fabric-neither-committed-nor-rolled-back"
                            },
                            describe(),
                        );
                    }
                    if mem_fabrics.is_empty() && kv_fabric {
                        out.violate("C08-rolled-back-fabric-still-stored", describe());
                    }
                    if let Some(d) = &run.dev_states[0] {
                        if d.snap.failsafe.armed {
                            out.violate("C08-failsafe-still-armed", describe());
                        }
                        if mem_fabrics.is_empty() && d.snap.sessions.iter().any(|s| s.mode.fab_idx() != 0) {
                            out.violate("C08-session-of-rolled-back-fabric", describe());
                        }
                    }
                    if !commission_ok && last_read_ok && mem_fabrics.is_empty() {
                        out.violate("C08-read-served-without-fabric", describe());
                    }
                }
            }
        }
        out.count("commission_ok", commission_ok as u64);
        out.count("device_restarts", run.device_incarnations as u64 - 1);
        out.nontrivial = !run.fired.is_empty() && run.net.sent > 10;
        out.state_sigs.push((commission_ok as u64) << 2 | (kv_fabric as u64) << 1 | !mem_fabrics.is_empty() as u64);
        out.sample = Some(json!({"plan": plan, "commission_ok": commission_ok, "reads": reads, "incarnations": run.device_incarnations,
            "events": run.log.iter().take(14).map(|e| format!("t={} n{} {:?}", e.time, e.node, e.kind)).collect::<Vec<_>>()}));
        out
    }
}

pub fn defs() -> Vec<PropertyDef> {
    let mk = |which: Which, id: &'static str| PropertyDef {
        id,
        level: "fault_enumeration",
        families: vec![
            Family {
                scenario: Box::new(CommissionCrash { which, faults: false }),
                weight: 1,
                fault_free: true,
            },
            Family {
                scenario: Box::new(CommissionCrash { which, faults: true }),
                weight: 8,
                fault_free: false,
            },
        ],
        rule: "one run = full commissioning (PASE, attestation, CSR, AddTrustedRoot, AddNOC, CASE, CommissioningComplete) of a real device by a real Commissioner, with one fault plan: KvBlobStore error / crash-before / crash-after at mutating store operation k (every k of the history), crash between polls at a microsecond-resolution instant of the conversation, a second crash during recovery, combined with light network faults and scheduler deviations; then 200 s for restarts and fail-safe expiry and three verification reads over a fresh CASE session; distinct = distinct trace hash; non-trivial = a fault fired and the conversation exchanged > 10 datagrams",
        assumptions: vec![
            "KvBlobStore contract: each store/remove is atomic per key and durable when it returns Ok (torn writes inside one blob belong to a concrete back-end, not simulated)",
            "Ethernet device (DummyNetworks): the network-credential half of the statement is not exercised in this family",
            "harness, oracles trusted; sampling over fault positions (the KV op index space is covered exhaustively only by volume, reported in counters)",
        ],
        real: "whole device stack: transport, secure channel (PASE, CASE), Interaction Model, general commissioning / operational credentials / access control clusters, fail-safe, fabric persistence, Matter::startup; controller: Commissioner, CASE initiator, IM client",
        stubbed: "network, clock, RNG, KV back-end (SimKv with fault injection), mDNS (stub resolver), device attestation (in-crate test DAC), application cluster (test OnOff)",
        budget_s: (60, 600),
    };
    vec![mk(Which::C08, "C08"), mk(Which::C11, "C11")]
}
