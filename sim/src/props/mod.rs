pub mod admin_props;
pub mod c03;
pub mod c04;
pub mod c07;
pub mod c12;
pub mod c15;
pub mod c18;
pub mod full_props;
pub mod handshake_props;
pub mod im_model;
pub mod im_props;
pub mod mrp_oracles;
pub mod mrp_props;

use crate::runner::Scenario;

/// One scenario family of a property together with its share of the budget
pub struct Family {
    pub scenario: Box<dyn Scenario>,
    /// Share of the wall-clock budget (relative weight)
    pub weight: u32,
    /// Fault-free configuration: must be clean before the fault-injecting ones are believed
    pub fault_free: bool,
}

pub struct PropertyDef {
    pub id: &'static str,
    pub level: &'static str,
    pub families: Vec<Family>,
    pub rule: &'static str,
    pub assumptions: Vec<&'static str>,
    pub real: &'static str,
    pub stubbed: &'static str,
    /// Wall-clock budgets in seconds (quick, thorough)
    pub budget_s: (u64, u64),
}

pub fn registry() -> Vec<PropertyDef> {
    let mut v = Vec::new();
    v.extend(mrp_props::defs());
    v.extend(c04::defs());
    v.extend(c15::defs());
    v.extend(c18::defs());
    v.extend(full_props::defs());
    v.extend(admin_props::defs());
    v.extend(c07::defs());
    v.extend(handshake_props::defs());
    v.extend(im_props::defs());
    v.extend(im_props::defs_c13());
    v.extend(c12::defs());
    v.extend(c03::defs());
    v
}
