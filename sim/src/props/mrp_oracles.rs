//! Oracles over the recorded history of an mrp-world run.

use std::collections::{BTreeMap, BTreeSet};

use rs_matter::error::ErrorCode;
use rs_matter::verif::{Event, RxVerdict};

use crate::kernel::{MS, SEC};
use crate::runner::Outcome;
use crate::worlds::mrp::*;
use crate::worlds::mrp_drive::*;

fn base_ms(run: &MrpRun, node: usize) -> u64 {
    run.cfg.sai[node].filter(|v| *v > 0).unwrap_or(300) as u64
}

/// Lower bound (µs) of the `k`-th retransmission interval (0-based) per the Matter spec:
/// base × 1.1 × 1.6^max(0, k-1), no jitter.
pub fn backoff_min_us(base_ms: u64, k: u32) -> u64 {
    let e = k.saturating_sub(1) as i32;
    (base_ms as f64 * 1.1 * 1.6f64.powi(e) * 1000.0) as u64
}

/// Upper bound (µs) of the time a sender may keep trying: all intervals with maximum jitter.
/// rs-matter performs 1 + 5 transmissions, so 6 intervals elapse before the give-up.
pub fn ladder_max_us(base_ms: u64) -> u64 {
    (0..6).map(|k| (backoff_min_us(base_ms, k) as f64 * 1.25) as u64 + 1000).sum()
}

struct Consumption {
    tap_idx: usize,
    time: u64,
    node: usize,
    dgram: usize,
    modified: bool,
    /// counter is greater than every counter consumed before on that session direction
    fresh_max: bool,
    /// same (session, counter) was consumed before by this node
    duplicate: bool,
}

/// The transport's verdict on the datagram consumed by tap event `consume_idx`
fn verdict_of(run: &MrpRun, consume_idx: usize) -> Option<RxVerdict> {
    run.events.iter().find_map(|e| match &e.ev {
        Event::Rx { verdict, .. } if e.tap_pos == consume_idx + 1 => Some(*verdict),
        _ => None,
    })
}

fn consumptions(run: &MrpRun) -> Vec<Consumption> {
    let by_id: BTreeMap<u64, usize> = run.dgrams.iter().enumerate().map(|(i, d)| (d.id, i)).collect();
    let mut max: BTreeMap<(usize, usize), u32> = BTreeMap::new();
    let mut seen: BTreeSet<(usize, usize, u32)> = BTreeSet::new();
    let mut out = Vec::new();
    for (tap_idx, ev) in run.tap.iter().enumerate() {
        if let crate::net::TapEvent::Consume {
            id,
            time,
            node,
            modified,
        } = ev
        {
            let Some(&di) = by_id.get(id) else { continue };
            let d = &run.dgrams[di];
            let mut fresh_max = false;
            let mut duplicate = false;
            if !*modified {
                if let (Some(pl), Some(plain), Some(_)) = (d.planted, &d.plain, &d.proto) {
                    let key = (*node, pl);
                    let m = max.get(&key).copied();
                    if m.map(|m| plain.ctr > m).unwrap_or(true) {
                        fresh_max = true;
                        max.insert(key, plain.ctr);
                    }
                    duplicate = !seen.insert((*node, pl, plain.ctr));
                }
            }
            out.push(Consumption {
                tap_idx,
                time: *time,
                node: *node,
                dgram: di,
                modified: *modified,
                fresh_max,
                duplicate,
            });
        }
    }
    out
}

pub fn check_c09(run: &MrpRun, out: &mut Outcome) {
    let cons = consumptions(run);
    let tx_timeout = ErrorCode::TxTimeout as u16;

    // ---- O1: at most once, in order, nothing fabricated
    {
        let mut last: BTreeMap<(usize, u32, u16, bool), i32> = BTreeMap::new();
        for ev in &run.log {
            if let AppKind::Recv { seq, hash, .. } = &ev.kind
            {
                let key = (ev.node, ev.incarnation, ev.wl, ev.initiator);
                let prev = last.get(&key).copied().unwrap_or(-1);
                // Ordering and at-most-once are promised for reliably sent messages only
                let reliable = run.log.iter().any(|s| {
                    s.node != ev.node
                        && s.wl == ev.wl
                        && matches!(&s.kind, AppKind::SendStart { seq: sq, reliable: true, .. } if sq == seq)
                });
                if !reliable {
                    out.count("app_recv_unreliable", 1);
                    continue;
                }
                if (*seq as i32) <= prev {
                    out.violate(
                        "O1-duplicate-or-reordered-delivery",
                        format!(
                            "node {} wl {} received seq {} after seq {} (t={})",
                            ev.node, ev.wl, seq, prev, ev.time
                        ),
                    );
                }
                last.insert(key, *seq as i32);
                let genuine = run.log.iter().any(|s| {
                    s.node != ev.node
                        && s.wl == ev.wl
                        && s.initiator == !ev.initiator
                        && s.time <= ev.time
                        && matches!(&s.kind, AppKind::SendStart { seq: sq, hash: h, .. } if sq == seq && h == hash)
                });
                if !genuine {
                    out.violate(
                        "O1-fabricated-delivery",
                        format!("node {} wl {} received seq {} which the peer never sent", ev.node, ev.wl, seq),
                    );
                }
                out.count("app_recv", 1);
            }
        }
    }

    // ---- O2 / O3 / O4 per send call
    for (i, ev) in run.log.iter().enumerate() {
        let AppKind::SendStart { seq, reliable, .. } = &ev.kind else {
            continue;
        };
        out.count("app_send", 1);
        let end = run.log[i + 1..].iter().find(|e| {
            e.node == ev.node
                && e.incarnation == ev.incarnation
                && e.wl == ev.wl
                && e.initiator == ev.initiator
                && matches!(&e.kind, AppKind::SendEnd { seq: s, .. } if s == seq)
        });
        let budget = ladder_max_us(base_ms(run, ev.node)) + 2 * SEC;

        let Some(end) = end else {
            // Still pending at the end of the run
            let elapsed = run.end_local[ev.node].saturating_sub(ev.local_time);
            if elapsed > budget {
                out.violate(
                    "O3-send-hangs",
                    format!(
                        "node {} wl {} seq {} send pending for {} us (budget {} us)",
                        ev.node, ev.wl, seq, elapsed, budget
                    ),
                );
            }
            continue;
        };
        let AppKind::SendEnd { result, .. } = &end.kind else {
            unreachable!()
        };
        if !*reliable {
            continue;
        }
        let dur = end.local_time.saturating_sub(ev.local_time);
        if dur > budget {
            out.violate(
                "O3-send-exceeds-budget",
                format!(
                    "node {} wl {} seq {} send took {} us (budget {} us) result {:#x}",
                    ev.node, ev.wl, seq, dur, budget, result
                ),
            );
        }

        let peer = 1 - ev.node;
        let msg_dgrams: Vec<usize> = run
            .dgrams
            .iter()
            .enumerate()
            .filter(|(_, d)| {
                d.src == ev.node
                    && d.src_inc == ev.incarnation
                    && d.app == Some((ev.wl, *seq))
                    && d.proto.as_ref().map(|p| p.is_initiator() == ev.initiator).unwrap_or(false)
            })
            .map(|(i, _)| i)
            .collect();
        let Some(&first) = msg_dgrams.first() else {
            if *result == OK {
                out.violate(
                    "O2-success-without-transmission",
                    format!("node {} wl {} seq {} reported Ok but nothing was transmitted", ev.node, ev.wl, seq),
                );
            }
            continue;
        };
        let d0 = &run.dgrams[first];
        let ctr = d0.plain.as_ref().unwrap().ctr;
        let exch = d0.proto.as_ref().unwrap().exch_id;
        let pl = d0.planted;

        let delivered_before = |t: u64| {
            cons.iter().any(|c| {
                c.node == peer && !c.modified && c.time <= t && msg_dgrams.contains(&c.dgram)
            })
        };
        let ack_consumed_before = |t: u64, need_fresh: bool| {
            cons.iter().any(|c| {
                if c.node != ev.node || c.modified || c.time > t || (need_fresh && !c.fresh_max) {
                    return false;
                }
                let d = &run.dgrams[c.dgram];
                d.src == peer
                    && d.planted == pl
                    && matches!(&d.proto, Some(p) if p.ack == Some(ctr) && p.exch_id == exch && p.is_initiator() != ev.initiator)
            })
        };

        if *result == OK {
            out.count("send_ok", 1);
            // What did the peer's transport say about the first copy it took in?
            let first_verdict = cons
                .iter()
                .find(|c| c.node == peer && !c.modified && msg_dgrams.contains(&c.dgram))
                .and_then(|c| verdict_of(run, c.tap_idx));
            // (A message for an exchange that is gone is acknowledged and dropped by design: MRP
            // acknowledges unsolicited messages; only refusals of the session itself count here)
            if matches!(first_verdict, Some(RxVerdict::NoSession | RxVerdict::Error)) {
                out.violate(
                    "O2-success-although-peer-refused",
                    format!(
                        "node {} wl {} seq {} ctr {:#x}: send returned Ok although the peer's transport refused the message ({:?})",
                        ev.node, ev.wl, seq, ctr, first_verdict
                    ),
                );
            }
            if !delivered_before(end.time) {
                out.violate(
                    "O2-success-without-delivery",
                    format!(
                        "node {} wl {} seq {} ctr {:#x}: send returned Ok at t={} but no copy had been received by the peer",
                        ev.node, ev.wl, seq, ctr, end.time
                    ),
                );
            }
            if !ack_consumed_before(end.time, false) {
                out.violate(
                    "O2-success-without-ack",
                    format!(
                        "node {} wl {} seq {} ctr {:#x}: send returned Ok at t={} but no acknowledgement had been received",
                        ev.node, ev.wl, seq, ctr, end.time
                    ),
                );
            }
        } else if *result == tx_timeout {
            out.count("send_tx_timeout", 1);
            // O4: a delivered copy plus a fresh acknowledgement before the give-up => must be Ok
            if delivered_before(end.time) && ack_consumed_before(end.time.saturating_sub(1), true) {
                out.violate(
                    "O4-timeout-despite-ack",
                    format!(
                        "node {} wl {} seq {} ctr {:#x}: TxTimeout at t={} although the message was delivered and acknowledged",
                        ev.node, ev.wl, seq, ctr, end.time
                    ),
                );
            }
            // The give-up must not come before the whole ladder was used up
            if msg_dgrams.len() < 2 {
                out.violate(
                    "O3-premature-timeout",
                    format!("node {} wl {} seq {}: TxTimeout after {} transmission(s)", ev.node, ev.wl, seq, msg_dgrams.len()),
                );
            }
        } else {
            out.count("send_other_err", 1);
        }
    }

    // ---- O5: back-off lower bound between consecutive transmissions of one message.
    // Only evaluated when the scheduler never lets simulated time pass while a task is runnable
    // ("overtake" = slow CPU): otherwise the time between handing a message to the transport and
    // its appearance on the wire is not zero and wire spacing is not what the timers measured.
    if run.cfg.sched.overtake_permille == 0 {
        let mut groups: BTreeMap<(usize, u32, u16, u32), Vec<&Dgram>> = BTreeMap::new();
        for d in &run.dgrams {
            if d.src_inc == 0 {
                continue;
            }
            if let (Some(plain), Some(proto)) = (&d.plain, &d.proto) {
                if proto.is_reliable() && d.planted.is_some() {
                    groups.entry((d.src, d.src_inc, plain.sess_id, plain.ctr)).or_default().push(d);
                }
            }
        }
        for ((src, _, sid, ctr), g) in groups {
            if g.len() > 1 {
                out.count("retransmitted_messages", 1);
                out.count("retransmissions", g.len() as u64 - 1);
            }
            if g.len() > 6 {
                out.violate(
                    "O5-too-many-transmissions",
                    format!("node {src} sid {sid} ctr {ctr:#x}: {} transmissions", g.len()),
                );
            }
            for k in 0..g.len().saturating_sub(1) {
                let gap = g[k + 1].local_time.saturating_sub(g[k].local_time);
                let min = backoff_min_us(base_ms(run, src), k as u32);
                // Tolerance: integer truncation in ms arithmetic
                if gap + 3 * MS < min {
                    out.violate(
                        "O5-retransmission-before-backoff",
                        format!(
                            "node {src} sid {sid} ctr {ctr:#x}: transmission {} came {} us after the previous one, spec minimum {} us",
                            k + 1, gap, min
                        ),
                    );
                }
            }
        }
    }

    // ---- O6: every received duplicate of a message is acknowledged again
    for c in &cons {
        if !c.duplicate || c.modified {
            continue;
        }
        let d = &run.dgrams[c.dgram];
        let (Some(plain), Some(proto)) = (&d.plain, &d.proto) else {
            continue;
        };
        if proto.is_standalone_ack() || !proto.is_reliable() {
            continue;
        }
        out.count("duplicates_received", 1);
        // What did the transport say about this very copy?
        let verdict = verdict_of(run, c.tap_idx);
        if matches!(verdict, Some(RxVerdict::NoSession)) {
            continue;
        }
        let acked = run.dgrams.iter().any(|a| {
            a.src == c.node
                && a.dst == Some(d.src)
                && a.planted == d.planted
                && a.time >= c.time
                && a.time <= c.time + SEC
                && matches!(&a.proto, Some(p) if p.ack == Some(plain.ctr))
        });
        if !acked {
            out.violate(
                "O6-duplicate-not-acknowledged",
                format!(
                    "node {} consumed a duplicate of sid {} ctr {:#x} at t={} (verdict {:?}) and sent no acknowledgement",
                    c.node, plain.sess_id, plain.ctr, c.time, verdict
                ),
            );
        }
    }
}

/// C15 (tap oracle): identical retransmissions, strictly increasing counters of new messages
pub fn check_c15_tap(dgrams: &[Dgram], out: &mut Outcome) {
    let mut groups: BTreeMap<(usize, u32, u16, u32, Option<u64>, Option<usize>), Vec<&Dgram>> = BTreeMap::new();
    for d in dgrams {
        if d.src_inc == 0 {
            continue;
        }
        let Some(plain) = &d.plain else { continue };
        if plain.sess_id == 0 && !plain.is_group() {
            continue;
        }
        groups
            .entry((d.src, d.src_inc, plain.sess_id, plain.ctr, plain.src, d.dst))
            .or_default()
            .push(d);
    }
    for (k, g) in &groups {
        if g.len() > 1 {
            out.count("c15_retransmission_groups", 1);
            for d in &g[1..] {
                if d.bytes != g[0].bytes {
                    let hdr = match (&g[0].proto, &d.proto) {
                        (Some(a), Some(b)) => format!(
                            "first: op {:#x} exch {} ack {:?} len {}; later: op {:#x} exch {} ack {:?} len {}",
                            a.opcode, a.exch_id, a.ack, a.payload.len(), b.opcode, b.exch_id, b.ack, b.payload.len()
                        ),
                        _ => String::new(),
                    };
                    let only_ack = matches!((&g[0].proto, &d.proto), (Some(a), Some(b))
                        if a.ack != b.ack && a.opcode == b.opcode && a.exch_id == b.exch_id && a.proto_id == b.proto_id
                            && a.payload == b.payload && (a.exch_flags | 2) == (b.exch_flags | 2));
                    out.violate(
                        if only_ack {
                            "C15-nonce-reuse-ack-changed-on-retransmission"
                        } else {
                            "C15-nonce-reuse"
                        },
                        format!(
                            "node {} sid {} ctr {:#x}: two different datagrams under the same key/counter/source (t={} and t={}) {}",
                            k.0, k.2, k.3, g[0].time, d.time, hdr
                        ),
                    );
                    break;
                }
            }
        }
    }
}

/// C15 (allocation oracle): the counters a session hands out for new messages strictly increase,
/// and every secured datagram a node emits carries a counter its session handed out
pub fn check_c15_alloc(run: &MrpRun, out: &mut Outcome) {
    let mut last: BTreeMap<(usize, u32, u32), u32> = BTreeMap::new();
    let mut handed: BTreeSet<(usize, u32, u16, u32)> = BTreeSet::new();
    for e in &run.events {
        if let Event::TxCtr {
            session_id,
            local_sess_id,
            ctr,
        } = &e.ev
        {
            out.count("c15_counters_handed_out", 1);
            let key = (e.node, e.incarnation, *session_id);
            if let Some(prev) = last.get(&key) {
                if ctr <= prev {
                    out.violate(
                        "C15-counter-not-increasing",
                        format!("node {} session {}: counter {:#x} handed out after {:#x}", e.node, session_id, ctr, prev),
                    );
                }
            }
            last.insert(key, *ctr);
            handed.insert((e.node, e.incarnation, *local_sess_id, *ctr));
        }
    }
    for d in &run.dgrams {
        if d.src_inc == 0 {
            continue;
        }
        let (Some(plain), Some(pl)) = (&d.plain, d.planted) else {
            continue;
        };
        let p = &run.cfg.planted[pl];
        let my_sid = if p.a == d.src { p.a_local_sid } else { p.b_local_sid };
        if !handed.contains(&(d.src, d.src_inc, my_sid, plain.ctr)) {
            out.violate(
                "C15-counter-not-from-session",
                format!("node {} emitted a datagram on session {} with counter {:#x} which that session never handed out", d.src, my_sid, plain.ctr),
            );
        }
    }
}

/// C15 (snapshot oracle): unique local session ids and exchange ids
pub fn check_c15_snap(snap: &rs_matter::verif::Snapshot, node: usize, out: &mut Outcome) {
    let mut sids = BTreeSet::new();
    for s in &snap.sessions {
        if s.local_sess_id != 0 && !sids.insert(s.local_sess_id) {
            out.violate(
                "C15-duplicate-session-id",
                format!("node {node}: two live sessions with local session id {}", s.local_sess_id),
            );
        }
        let mut ex = BTreeSet::new();
        for e in &s.exchanges {
            if !ex.insert((e.exch_id, e.initiator)) {
                out.violate(
                    "C15-duplicate-exchange-id",
                    format!("node {node} session {}: two live exchanges with id {} role {}", s.id, e.exch_id, e.initiator),
                );
            }
        }
    }
    // Initiator exchange ids are allocated from one space per node
    let mut all = BTreeSet::new();
    for s in &snap.sessions {
        for e in s.exchanges.iter().filter(|e| e.initiator) {
            if !all.insert(e.exch_id) {
                out.violate(
                    "C15-duplicate-initiator-exchange-id",
                    format!("node {node}: two live initiator exchanges with id {}", e.exch_id),
                );
            }
        }
    }
}

/// C04 (system level): the receive window of every planted session, checked against a model
pub fn check_c04_sys(run: &MrpRun, out: &mut Outcome) {
    struct Model {
        max: Option<u32>,
        accepted: BTreeSet<u32>,
    }
    let mut models: BTreeMap<(usize, u32, u32), Model> = BTreeMap::new();
    for e in &run.events {
        let Event::RxCtr {
            session_id,
            local_sess_id,
            ctr,
            accepted,
        } = &e.ev
        else {
            continue;
        };
        if !run
            .cfg
            .planted
            .iter()
            .any(|p| (p.a == e.node && p.a_local_sid == *local_sess_id) || (p.b == e.node && p.b_local_sid == *local_sess_id))
        {
            continue;
        }
        let m = models.entry((e.node, e.incarnation, *session_id)).or_insert(Model {
            max: None,
            accepted: BTreeSet::new(),
        });
        out.count("c04_ctr_verdicts", 1);
        let seen = m.accepted.contains(ctr);
        let newer = m.max.map(|mx| *ctr > mx).unwrap_or(true);
        let in_window = m.max.map(|mx| *ctr <= mx && mx - *ctr <= 16).unwrap_or(false);
        if *accepted {
            if seen {
                out.violate(
                    "C04-accepted-twice",
                    format!("node {} session {} ctr {:#x} accepted twice", e.node, session_id, ctr),
                );
            } else if !newer && !in_window {
                out.violate(
                    "C04-accepted-older-than-window",
                    format!("node {} session {} ctr {:#x} accepted, max {:?}", e.node, session_id, ctr, m.max),
                );
            }
            m.accepted.insert(*ctr);
            if newer {
                m.max = Some(*ctr);
            }
        } else if !seen && (newer || in_window) {
            out.count("c04_first_time_rejected", 1);
            out.violate(
                if newer {
                    "C04-new-maximum-rejected"
                } else {
                    "C04-first-time-in-window-rejected"
                },
                format!(
                    "node {} session {} ctr {:#x} was never accepted before, max accepted {:?}, yet it was classified duplicate (t={})",
                    e.node, session_id, ctr, m.max, e.time
                ),
            );
        } else if seen {
            out.count("c04_true_duplicates", 1);
        } else {
            out.count("c04_older_than_window", 1);
        }
    }
}

/// C10: a message reaches only its own exchange; the receive path never wedges
pub fn check_c10(run: &MrpRun, out: &mut Outcome) {
    use rs_matter::verif::SlotSnap;

    // (a) delivery only to the own exchange
    for ev in &run.log {
        if let AppKind::Recv { seq, hash, payload_wl } = &ev.kind {
            out.count("app_recv", 1);
            if ev.wl != *payload_wl {
                out.violate(
                    "C10-misdelivery",
                    format!(
                        "node {} exchange of workload {} received a message of workload {} (seq {})",
                        ev.node, ev.wl, payload_wl, seq
                    ),
                );
            }
            // ... and only from the opposite role of that very exchange
            let genuine = run.log.iter().any(|s| {
                s.node != ev.node
                    && s.wl == ev.wl
                    && s.initiator == !ev.initiator
                    && matches!(&s.kind, AppKind::SendStart { seq: sq, hash: h, .. } if sq == seq && h == hash)
            });
            if !genuine {
                out.violate(
                    "C10-delivery-from-wrong-role",
                    format!("node {} wl {} seq {}: no such message was sent by the opposite role", ev.node, ev.wl, seq),
                );
            }
        }
    }

    // (b), (c) exchange creation and answers to unknown exchanges
    let cons = consumptions(run);
    let cons_by_tap: BTreeMap<usize, usize> = cons.iter().enumerate().map(|(i, c)| (c.tap_idx, i)).collect();
    let mut sent_at: BTreeMap<(usize, u64), Vec<usize>> = BTreeMap::new();
    // (node, planted, exch id) of every exchange a node has used as initiator -> first time
    let mut initiated: BTreeMap<(usize, Option<usize>, u16), u64> = BTreeMap::new();
    for (i, d) in run.dgrams.iter().enumerate() {
        sent_at.entry((d.src, d.time)).or_default().push(i);
        if let Some(p) = &d.proto {
            if p.is_initiator() {
                initiated.entry((d.src, d.planted, p.exch_id)).or_insert(d.time);
            }
        }
    }
    for e in &run.events {
        let Event::Rx {
            wire_sess_id,
            ctr,
            verdict,
            ..
        } = &e.ev
        else {
            continue;
        };
        // The datagram this verdict is about
        let _ = (wire_sess_id, ctr);
        let d = cons_by_tap.get(&(e.tap_pos.wrapping_sub(1))).map(|ci| {
            let c = &cons[*ci];
            (c, &run.dgrams[c.dgram])
        });
        let Some((c, d)) = d else { continue };
        if c.modified {
            continue;
        }
        let Some(proto) = &d.proto else { continue };
        match verdict {
            RxVerdict::Processed { new_exchange: true } => {
                out.count("c10_new_responder_exchanges", 1);
                if !proto.is_initiator() || proto.is_standalone_ack() || (proto.proto_id == 0 && proto.opcode == 0x40) {
                    out.violate(
                        "C10-exchange-opened-by-wrong-message",
                        format!(
                            "node {} opened an exchange for a message with flags {:#x} opcode {:#x} (exch {})",
                            e.node, proto.exch_flags, proto.opcode, proto.exch_id
                        ),
                    );
                }
            }
            RxVerdict::Processed { new_exchange: false } => {
                // Must match an exchange this node has: as initiator it must have sent on it before
                if !proto.is_initiator() {
                    let mine = matches!(initiated.get(&(e.node, d.planted, proto.exch_id)), Some(t) if *t <= e.time);
                    if !mine {
                        out.violate(
                            "C10-answer-to-unknown-exchange-surfaced",
                            format!("node {} processed an answer on exchange {} it never initiated", e.node, proto.exch_id),
                        );
                    }
                }
            }
            RxVerdict::NoExchange | RxVerdict::NoSession
                if !proto.is_initiator() && matches!(&d.plain, Some(p) if !p.is_secured()) =>
            {
                out.count("c10_unsecured_answers_to_unknown_exchange", 1);
                // Dropped means dropped: nothing is sent in reaction to an answer nobody waits for.
                // The transport reacts synchronously, i.e. before it takes the next datagram.
                let next_consume = cons
                    .iter()
                    .find(|n| n.node == c.node && n.tap_idx > c.tap_idx)
                    .map(|n| n.tap_idx)
                    .unwrap_or(usize::MAX);
                let reaction = sent_at
                    .get(&(e.node, e.time))
                    .map(|v| {
                        v.iter().any(|si| {
                            let s = &run.dgrams[*si];
                            s.tap_idx > c.tap_idx
                                && s.tap_idx < next_consume
                                && s.dst == Some(d.src)
                                && matches!(&s.plain, Some(p) if !p.is_secured())
                                && matches!(&s.proto, Some(p) if p.proto_id == 0 && p.opcode == 0x40 && p.exch_id == proto.exch_id)
                        })
                    })
                    .unwrap_or(false);
                if reaction {
                    out.violate(
                        "C10-answer-to-unknown-exchange-not-dropped",
                        format!(
                            "node {} answered (unsecured status report) an unsecured non-initiator message (exch {} opcode {:#x}) for which it has no exchange (t={})",
                            e.node, proto.exch_id, proto.opcode, e.time
                        ),
                    );
                }
            }
            _ => {}
        }
    }

    // (d) bounded liveness once disturbances stopped
    if let Some((w0, w1, snaps)) = &run.quiet {
        out.count("c10_quiet_windows", 1);
        let chatter: Vec<&Dgram> = run.dgrams.iter().filter(|d| d.time >= *w0 && d.time < *w1).collect();
        if !chatter.is_empty() {
            let d = chatter[0];
            out.violate(
                "C10-traffic-never-stops",
                format!(
                    "{} datagrams were sent in the quiet window [{w0},{w1}) long after all applications stopped; first: node {} len {} {:?}",
                    chatter.len(),
                    d.src,
                    d.bytes.len(),
                    d.proto.as_ref().map(|p| (p.proto_id, p.opcode, p.exch_id))
                ),
            );
        }
        for (n, s) in snaps.iter().enumerate() {
            let Some(s) = s else { continue };
            if s.rx_slot == SlotSnap::Full {
                // Who owns the packet? If nobody can pick it up, the receive path is wedged
                out.violate("C10-rx-slot-wedged", format!("node {n}: RX slot still occupied at the end of the quiet window"));
            }
            if s.tx_slot == SlotSnap::Full {
                out.violate("C10-tx-slot-wedged", format!("node {n}: TX slot still occupied at the end of the quiet window"));
            }
            for sess in &s.sessions {
                for ex in &sess.exchanges {
                    if ex.state != 0 {
                        out.violate(
                            "C10-unclaimed-exchange-not-closed",
                            format!("node {n} session {}: exchange {} still in state {} at the end of the quiet window", sess.id, ex.exch_id, ex.state),
                        );
                    }
                }
            }
        }
        // (e) probe on every session which is alive at both ends
        let (Some(Some(s0)), Some(Some(s1))) = (snaps.first(), snaps.get(1)) else {
            return;
        };
        for (i, p) in run.cfg.planted.iter().enumerate() {
            let a = s0.sessions.iter().find(|s| s.local_sess_id == p.a_local_sid);
            let b = s1.sessions.iter().find(|s| s.local_sess_id == p.b_local_sid);
            let (Some(a), Some(b)) = (a, b) else { continue };
            if a.expired || b.expired {
                continue;
            }
            // Exchange slots may legitimately still be owned by applications; the probe needs one
            if a.exchanges.len() >= 5 || b.exchanges.len() >= 5 {
                continue;
            }
            out.count("c10_probes", 1);
            let wl = PROBE_WL_BASE + i as u16;
            let ok = run
                .log
                .iter()
                .any(|e| e.node == 0 && e.wl == wl && e.initiator && matches!(e.kind, AppKind::Done { result } if result == OK));
            if !ok {
                let what: Vec<String> = run.log.iter().filter(|e| e.wl == wl).map(|e| format!("{:?}", e.kind)).collect();
                out.violate(
                    "C10-probe-not-served",
                    format!("probe request on session {i} (alive at both ends) was not served after all disturbances stopped: {what:?}"),
                );
            }
        }
    }
}
