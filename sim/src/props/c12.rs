//! C12: durable counters never hand out the same value twice, across restarts too.
//!
//! World: one real node (Matter + Interaction Model + ICD state) on a simulated key-value store
//! and network. A tape-chosen script makes it send group data messages (values read off the
//! wire), emit events (numbers as handed to the application) and run the Check-In counter the
//! way an application is told to (load, persist, then per batch: peek, "send", advance). The
//! node is crashed and restarted between operations and at individual store operations; in a
//! separate family store operations fail. Start boundaries come from the tape, including values
//! next to the wrap of each counter's range.

use std::cell::{Cell, RefCell};
use std::collections::BTreeMap;
use std::num::NonZeroU8;
use std::rc::Rc;

use embassy_time::{Duration, Timer};
use serde_json::json;

use rs_matter::crypto::{default_crypto, CanonAeadKey, Crypto};
use rs_matter::dm::clusters::icd_mgmt::{Icd, IcdModeConfig};
use rs_matter::dm::clusters::net_comm::DummyNetworks;
use rs_matter::dm::devices::test::{DAC_PRIVKEY, TEST_DEV_ATT, TEST_DEV_COMM, TEST_DEV_DET};
use rs_matter::dm::{Async, EmptyHandler, EventEmitter, Node};
use rs_matter::error::Error;
use rs_matter::fabric::GroupKeyMapping;
use rs_matter::group_keys::{GroupEpochKeyEntry, GroupKeySet};
use rs_matter::im::{EventPriority, InteractionModel, InteractionModelState};
use rs_matter::persist::{EVENT_EPOCH_KEY, GROUP_DATA_COUNTER_KEY, ICD_CHECK_IN_COUNTER_KEY};
use rs_matter::sc::checkin::CheckInCounter;
use rs_matter::tlv::{TLVTag, TLVWrite};
use rs_matter::transport::exchange::{Exchange, MatterBuffers, MessageMeta};
use rs_matter::Matter;

use crate::kernel::{self, Exec, NodeShared, RootFut, SchedCfg, SimTasks, StopReason, TaskDef, MS, SEC};
use crate::kv::{KvFault, SimKv};
use crate::net::{self, Fate, Net, Policy, TapSend};
use crate::props::{Family, PropertyDef};
use crate::runner::{Outcome, Scenario};
use crate::tape::{self, NodeRng, Rng};
use crate::tlvx::{self, Val};
use crate::wire;

const GROUP_RANGE: u32 = 0x0fff_ffff;
const GROUP_EPOCH: u32 = 1000;
const EVENT_EPOCH: u64 = 10_000;
const GROUP_ID: u16 = 0x0101;

#[derive(Clone, Debug, PartialEq, Eq)]
pub enum CtrOp {
    GroupSend(u32),
    Emit(u32),
    CheckIn(u32),
    /// Jump the Check-In counter forward (`Icd::invalidate_counter`), persisting as the interface says
    Invalidate(u32),
    /// Crash between two operations
    Restart,
}

#[derive(Clone, Copy, Debug, PartialEq, Eq, PartialOrd, Ord)]
pub enum Kind {
    Group,
    Event,
    CheckIn,
}

#[derive(Clone, Debug)]
pub struct Used {
    pub kind: Kind,
    pub incarnation: u32,
    pub value: u64,
    /// The boundary the store held durably at that instant
    pub durable: Option<u64>,
    pub time: u64,
}

#[derive(Clone, Debug)]
pub struct CtrCfg {
    pub script: Vec<CtrOp>,
    pub checkin_epoch: u32,
    pub checkin_first_start: u32,
    /// Initial store contents: group boundary, event epoch, check-in boundary
    pub seed_group: Option<u32>,
    pub seed_event: Option<u64>,
    pub seed_checkin: Option<u32>,
    /// Faults at mutating store operation k
    pub kv_faults: Vec<(usize, KvFault)>,
}

type UsedLog = Rc<RefCell<Vec<Used>>>;

fn durable_of(kv: &SimKv, kind: Kind) -> Option<u64> {
    let snap = kv.0.borrow();
    match kind {
        Kind::Group => snap
            .data
            .get(&GROUP_DATA_COUNTER_KEY)
            .and_then(|d| d.as_slice().try_into().ok())
            .map(|b: [u8; 4]| u32::from_le_bytes(b) as u64),
        Kind::CheckIn => snap
            .data
            .get(&ICD_CHECK_IN_COUNTER_KEY)
            .and_then(|d| d.as_slice().try_into().ok())
            .map(|b: [u8; 4]| u32::from_le_bytes(b) as u64),
        Kind::Event => snap
            .data
            .get(&EVENT_EPOCH_KEY)
            .and_then(|d| tlvx::decode(d).ok())
            .and_then(|(_, v)| v.uint()),
    }
}

/// Records the counter of every group data message the moment it is handed to the network
struct WirePolicy {
    kv: SimKv,
    log: UsedLog,
    incarnation: Rc<Cell<u32>>,
}

impl Policy for WirePolicy {
    fn decide(&mut self, rec: &TapSend) -> Vec<Fate> {
        if let Some(plain) = wire::decode_plain(&rec.bytes) {
            // After a crash point nothing the node still does in that poll exists
            if plain.is_secured() && plain.is_group() && !self.kv.crashed() {
                self.log.borrow_mut().push(Used {
                    kind: Kind::Group,
                    incarnation: self.incarnation.get(),
                    value: plain.ctr as u64,
                    durable: durable_of(&self.kv, Kind::Group),
                    time: rec.time,
                });
            }
        }
        vec![Fate::deliver(1_000)]
    }
}

struct NodeCtx {
    incarnation: u32,
    seed: u64,
    net: Net,
    wake: std::sync::Arc<kernel::NodeWake>,
    kv: SimKv,
    cfg: Rc<CtrCfg>,
    /// (script position, count done within the current op)
    pos: Rc<Cell<(usize, u32)>>,
    log: UsedLog,
    done: Rc<Cell<bool>>,
    want_restart: Rc<Cell<bool>>,
    notes: Rc<RefCell<BTreeMap<&'static str, u64>>>,
    /// The application owes a `persist_counter` (an `advance_counter` failed to store)
    persist_due: Cell<bool>,
}

fn note(ctx: &NodeCtx, k: &'static str) {
    *ctx.notes.borrow_mut().entry(k).or_default() += 1;
}

async fn script_task<D: EventEmitter>(ctx: &NodeCtx, matter: &Matter<'_>, crypto: &impl Crypto, dm: &D, icd: &Icd, checkin_ok: bool) {
    let kv_access = matter.kv(ctx.kv.clone());
    let mut buf = [0u8; 64];
    loop {
        let (pos, done) = ctx.pos.get();
        let Some(op) = ctx.cfg.script.get(pos) else {
            break;
        };
        let total = match op {
            CtrOp::GroupSend(n) | CtrOp::Emit(n) | CtrOp::CheckIn(n) => *n,
            CtrOp::Restart | CtrOp::Invalidate(_) => 1,
        };
        if done >= total {
            ctx.pos.set((pos + 1, 0));
            continue;
        }
        // Progress is recorded first: a crash inside the operation does not repeat it
        ctx.pos.set((pos, done + 1));
        match op {
            CtrOp::GroupSend(_) => {
                let r = Exchange::initiate_group(matter, crypto, &kv_access, NonZeroU8::new(1).unwrap(), GROUP_ID);
                match r {
                    Ok(mut ex) => {
                        let payload = [0x15u8, 0x18];
                        let r = ex.send(MessageMeta::new(0x7E57, 0x21, false), &payload).await;
                        if r.is_err() {
                            note(ctx, "group_send_failed");
                        } else {
                            note(ctx, "group_sent");
                        }
                    }
                    Err(_) => note(ctx, "group_initiate_failed"),
                }
                // Let the transport put it on the wire
                Timer::after(Duration::from_millis(2)).await;
            }
            CtrOp::Emit(_) => {
                let r = dm.emit_event(1, 0xFFF1_FC00, 0, EventPriority::Info, |mut tw| {
                    tw.start_struct(&TLVTag::Context(7))?;
                    tw.end_container()
                });
                match r {
                    Ok(_) if ctx.kv.crashed() => {}
                    Ok(n) => {
                        // The store as of now: the epoch write (if any) happened inside the call
                        ctx.log.borrow_mut().push(Used {
                            kind: Kind::Event,
                            incarnation: ctx.incarnation,
                            value: n,
                            durable: durable_of(&ctx.kv, Kind::Event),
                            time: kernel::now(),
                        });
                        note(ctx, "event_emitted");
                    }
                    Err(_) => note(ctx, "event_emit_failed"),
                }
                if done % 64 == 0 {
                    Timer::after(Duration::from_micros(10)).await;
                }
            }
            CtrOp::CheckIn(_) => {
                // A failed boundary store is repeated before anything else is sent
                if checkin_ok && ctx.persist_due.get() && icd.persist_counter(ctx.kv.clone(), &mut buf).is_ok() {
                    ctx.persist_due.set(false);
                }
                if checkin_ok && ctx.persist_due.get() {
                    note(ctx, "checkin_batch_held_back_boundary_not_stored");
                } else if checkin_ok {
                    // One Check-In batch: peek, "send", advance (what `Icd::send_check_in` does)
                    let value = icd.next_counter();
                    if !ctx.kv.crashed() {
                        ctx.log.borrow_mut().push(Used {
                        kind: Kind::CheckIn,
                        incarnation: ctx.incarnation,
                        value: value as u64,
                            durable: durable_of(&ctx.kv, Kind::CheckIn),
                            time: kernel::now(),
                        });
                    }
                    if icd.advance_counter(ctx.kv.clone(), &mut buf).is_err() {
                        note(ctx, "checkin_persist_failed");
                        ctx.persist_due.set(true);
                    }
                    note(ctx, "checkin_sent");
                } else {
                    note(ctx, "checkin_skipped_after_failed_boot_persist");
                }
                if done % 64 == 0 {
                    Timer::after(Duration::from_micros(10)).await;
                }
            }
            CtrOp::Invalidate(delta) => {
                if checkin_ok {
                    if icd.invalidate_counter(*delta) {
                        // "persist_counter must run before the device restarts"
                        ctx.persist_due.set(true);
                        if icd.persist_counter(ctx.kv.clone(), &mut buf).is_ok() {
                            ctx.persist_due.set(false);
                        }
                    }
                    note(ctx, "checkin_counter_invalidated");
                }
            }
            CtrOp::Restart => {
                ctx.want_restart.set(true);
                // The driver kills the node at the next opportunity
                Timer::after(Duration::from_secs(3600)).await;
            }
        }
    }
    ctx.done.set(true);
}

fn node_root(ctx: NodeCtx, shared: Rc<NodeShared>) -> RootFut {
    Box::pin(async move {
        let matter = Matter::new(&TEST_DEV_DET, TEST_DEV_COMM, &TEST_DEV_ATT, net::PORT);
        let rng = NodeRng(Rng::new(ctx.seed ^ ((ctx.incarnation as u64) << 32) ^ 0xC12));
        let crypto = default_crypto(rng, DAC_PRIVKEY);

        ctx.kv.new_incarnation(ctx.incarnation);
        let kv = matter.kv(ctx.kv.clone());
        if matter.startup(&kv).is_err() {
            note(&ctx, "matter_startup_failed");
        }
        // The fabric with its group key is re-created (it is not what this world persists)
        matter.with_state(|state| {
            if state.fabrics.iter().next().is_none() {
                state.fabrics.add_with_post_init(|_| Ok(())).unwrap();
            }
            let fabric = state.fabrics.fabric_mut(NonZeroU8::new(1).unwrap()).unwrap();
            let mut ks = GroupKeySet {
                group_key_set_id: 1,
                group_key_security_policy: 0,
                epoch_keys: Default::default(),
            };
            let mut key = CanonAeadKey::default();
            key.access_mut().copy_from_slice(&[0x5a; 16]);
            ks.epoch_keys
                .push(GroupEpochKeyEntry { epoch_key: key, epoch_start_time: 1 })
                .map_err(|_| ())
                .unwrap();
            fabric.groups_mut().key_set_add(ks).unwrap();
            if fabric.groups().key_map_iter().next().is_none() {
                fabric
                    .groups_mut()
                    .key_map_add(GroupKeyMapping { group_id: GROUP_ID, group_key_set_id: 1 })
                    .unwrap();
            }
        });

        let buffers: MatterBuffers = MatterBuffers::new();
        let state: InteractionModelState<DummyNetworks, 1, 1024> = InteractionModelState::new(DummyNetworks);
        state.suppress_start_up_event();
        let dm = InteractionModel::new(
            &matter,
            &crypto,
            &buffers,
            (Node::new(&[]), Async(EmptyHandler)),
            &kv,
            &state,
        );
        if dm.startup().await.is_err() {
            note(&ctx, "im_startup_failed");
        }

        // The ICD state the way an application sets it up: a (random) first start value, then the
        // persisted boundary if there is one, then the boundary of this run is stored
        let mode = IcdModeConfig {
            idle_mode_duration_s: 60,
            active_mode_duration_ms: 1000,
            active_mode_threshold_ms: 500,
            user_active_mode_trigger_hint: 0,
            user_active_mode_trigger_instruction: "",
        };
        let icd = Icd::new(CheckInCounter::new(ctx.cfg.checkin_first_start, ctx.cfg.checkin_epoch), mode);
        let mut buf = [0u8; 64];
        let mut checkin_ok = icd.load_counter(ctx.kv.clone(), ctx.cfg.checkin_epoch, &mut buf).is_ok();
        if checkin_ok {
            checkin_ok = icd.persist_counter(ctx.kv.clone(), &mut buf).is_ok();
        }
        if !checkin_ok {
            note(&ctx, "checkin_boot_persist_failed");
        }

        let mut tasks: Vec<TaskDef<'_>> = Vec::new();
        {
            let matter = &matter;
            let crypto = &crypto;
            let net = ctx.net.clone();
            let wake = ctx.wake.clone();
            let inc = ctx.incarnation;
            tasks.push(TaskDef::restartable("transport", move || {
                let (send, recv, mc) = net.attach(0, wake.clone(), inc);
                Box::pin(async move {
                    let _ = matter.run(crypto, send, recv, mc).await;
                })
            }));
        }
        tasks.push(TaskDef::once("script", script_task(&ctx, &matter, &crypto, &dm, &icd, checkin_ok)));
        SimTasks::new(shared, tasks).await
    })
}

pub struct CtrRun {
    pub cfg: CtrCfg,
    pub used: Vec<Used>,
    pub incarnations: u32,
    pub done: bool,
    pub stop: StopReason,
    pub kv_ops: usize,
    pub kv_errs: u64,
    pub kv_crashes: u64,
    pub notes: BTreeMap<&'static str, u64>,
    pub end_time: u64,
}

pub fn drive(seed: u64, cfg: CtrCfg) -> CtrRun {
    let kv = SimKv::new();
    {
        let mut k = kv.0.borrow_mut();
        if let Some(b) = cfg.seed_group {
            k.data.insert(GROUP_DATA_COUNTER_KEY, b.to_le_bytes().to_vec());
        }
        if let Some(b) = cfg.seed_checkin {
            k.data.insert(ICD_CHECK_IN_COUNTER_KEY, b.to_le_bytes().to_vec());
        }
        if let Some(e) = cfg.seed_event {
            k.data.insert(EVENT_EPOCH_KEY, tlvx::to_bytes(&Val::UInt(e)));
        }
    }
    for (k, f) in &cfg.kv_faults {
        kv.set_fault(*k, *f);
    }
    let crash_flag = Rc::new(Cell::new(false));
    kv.set_crash_flag(crash_flag.clone());
    let log: UsedLog = Rc::new(RefCell::new(Vec::new()));
    let inc_cell = Rc::new(Cell::new(1u32));
    let net = Net::new(Box::new(WirePolicy {
        kv: kv.clone(),
        log: log.clone(),
        incarnation: inc_cell.clone(),
    }));
    let cfg_rc = Rc::new(cfg.clone());
    let pos = Rc::new(Cell::new((0usize, 0u32)));
    let done = Rc::new(Cell::new(false));
    let want_restart = Rc::new(Cell::new(false));
    let notes = Rc::new(RefCell::new(BTreeMap::new()));

    let mut exec = Exec::new(SchedCfg {
        max_polls: 3_000_000,
        max_time: 10_000 * SEC,
        ..SchedCfg::default()
    });
    let (_, wake) = exec.add_node();
    exec.set_kill_flag(0, crash_flag.clone());
    let spawn = |exec: &mut Exec, inc: u32| {
        inc_cell.set(inc);
        let ctx = NodeCtx {
            incarnation: inc,
            seed,
            net: net.clone(),
            wake: wake.clone(),
            kv: kv.clone(),
            cfg: cfg_rc.clone(),
            pos: pos.clone(),
            log: log.clone(),
            done: done.clone(),
            want_restart: want_restart.clone(),
            notes: notes.clone(),
            persist_due: Cell::new(false),
        };
        exec.spawn(0, move |shared| node_root(ctx, shared));
    };
    let mut inc = 1;
    spawn(&mut exec, inc);
    let mut stop;
    loop {
        stop = exec.run_for(20 * MS);
        if matches!(stop, StopReason::MaxPolls) {
            break;
        }
        if want_restart.get() && exec.is_up(0) {
            want_restart.set(false);
            exec.kill(0);
        }
        if !exec.is_up(0) {
            // Crashed (by the script or at a store operation): come back
            inc += 1;
            if inc > 200 {
                break;
            }
            spawn(&mut exec, inc);
            continue;
        }
        if done.get() {
            stop = exec.run_for(20 * MS);
            break;
        }
        if kernel::now() > 9_000 * SEC {
            break;
        }
    }
    let end_time = kernel::now();
    exec.shutdown();
    drop(exec);
    let used = log.borrow().clone();
    let (kv_ops, kv_errs, kv_crashes) = {
        let k = kv.0.borrow();
        (k.mut_ops, k.err_count, k.crash_count)
    };
    let notes_final = notes.borrow().clone();
    CtrRun {
        cfg,
        used,
        incarnations: inc,
        done: done.get(),
        stop,
        kv_ops,
        kv_errs,
        kv_crashes,
        notes: notes_final,
        end_time,
    }
}

#[derive(Clone, Copy, Debug)]
pub struct CtrKnobs {
    pub crashes: bool,
    pub store_errors: bool,
    pub long_runs: bool,
}

pub fn gen_cfg(knobs: &CtrKnobs) -> CtrCfg {
    let mut script = Vec::new();
    let n_ops = 2 + tape::biased(10, 700);
    // Which counters this run exercises most
    let focus = tape::choose(4);
    for _ in 0..n_ops {
        let big = knobs.long_runs && tape::biased(4, 300) == 1;
        let op = match (tape::biased(4, 700) + focus) % 4 {
            0 => CtrOp::GroupSend(if big { 900 + tape::choose(400) } else { 1 + tape::biased(40, 600) }),
            1 => CtrOp::Emit(if big { 9_000 + tape::choose(3_000) } else { 1 + tape::biased(60, 600) }),
            2 => {
                if tape::biased(4, 300) == 1 {
                    CtrOp::Invalidate(1 + tape::choose(24))
                } else {
                    CtrOp::CheckIn(if big { 200 + tape::choose(400) } else { 1 + tape::biased(40, 600) })
                }
            }
            _ => {
                if knobs.crashes {
                    CtrOp::Restart
                } else {
                    CtrOp::CheckIn(1 + tape::biased(10, 500))
                }
            }
        };
        script.push(op);
    }
    let checkin_epoch = [10u32, 1, 2, 5, 100][tape::biased(5, 500) as usize];
    let near = |top: u32, span: u32| top.wrapping_sub(tape::choose(span));
    let seed_group = match tape::biased(5, 600) {
        0 => None,
        1 => Some(near(GROUP_RANGE, 1200)),
        2 => Some(1 + tape::choose(1100)),
        3 => Some(GROUP_RANGE - GROUP_EPOCH + tape::choose(3) - 1),
        _ => Some(tape::choose(GROUP_RANGE)),
    };
    let seed_event = match tape::biased(4, 500) {
        0 => None,
        1 => Some(EVENT_EPOCH),
        2 => Some(EVENT_EPOCH * (1 + tape::choose(50) as u64)),
        // (the wrap of the 64-bit event number is out of reach of any device lifetime: not seeded)
        _ => Some(EVENT_EPOCH * (1_000_000 + tape::choose(1000) as u64)),
    };
    let seed_checkin = match tape::biased(4, 600) {
        0 => None,
        1 => Some(near(u32::MAX, 40)),
        2 => Some(tape::choose(30)),
        _ => Some(tape::choose(u32::MAX)),
    };
    let checkin_first_start = match tape::biased(3, 500) {
        0 => tape::choose(u32::MAX),
        1 => near(u32::MAX, 20),
        _ => 0,
    };
    let mut kv_faults = Vec::new();
    let n_faults = if knobs.crashes || knobs.store_errors { tape::biased(4, 700) } else { 0 };
    for _ in 0..n_faults {
        let k = tape::biased(40, 700) as usize;
        let f = if knobs.store_errors && (!knobs.crashes || tape::biased(2, 500) == 1) {
            KvFault::Err
        } else if tape::biased(2, 500) == 1 {
            KvFault::CrashAfter
        } else {
            KvFault::CrashBefore
        };
        kv_faults.push((k, f));
    }
    CtrCfg {
        script,
        checkin_epoch,
        checkin_first_start,
        seed_group,
        seed_event,
        seed_checkin,
        kv_faults,
    }
}

pub fn check(run: &CtrRun, out: &mut Outcome) {
    for kind in [Kind::Group, Kind::Event, Kind::CheckIn] {
        let name = match kind {
            Kind::Group => "group data message counter",
            Kind::Event => "event number",
            Kind::CheckIn => "check-in counter",
        };
        let mut seen: BTreeMap<u64, &Used> = BTreeMap::new();
        for u in run.used.iter().filter(|u| u.kind == kind) {
            out.count(
                match kind {
                    Kind::Group => "group_values_on_the_wire",
                    Kind::Event => "event_numbers_handed_out",
                    Kind::CheckIn => "checkin_values_used",
                },
                1,
            );
            if let Some(prev) = seen.get(&u.value) {
                // A retransmission does not exist for group data messages: every wire occurrence is a use
                out.violate(
                    "value-handed-out-twice",
                    format!(
                        "{name}: value {:#x} used in incarnation {} (t={}) and again in incarnation {} (t={}); durable boundary at the second use: {:x?}",
                        u.value, prev.incarnation, prev.time, u.incarnation, u.time, u.durable
                    ),
                );
            } else {
                seen.insert(u.value, u);
            }
            // Covered by what is durable?
            let covered = match (kind, u.durable) {
                (_, None) => false,
                (Kind::Group, Some(b)) => {
                    let d = (b as u32).wrapping_sub(u.value as u32) & GROUP_RANGE;
                    // The boundary is exclusive; skipping 0 may shorten the distance by one
                    d >= 1 && d <= GROUP_EPOCH + 1
                }
                (Kind::Event, Some(b)) => u.value < b && b - u.value <= EVENT_EPOCH,
                (Kind::CheckIn, Some(b)) => {
                    let d = (b as u32).wrapping_sub(u.value as u32);
                    d <= run.cfg.checkin_epoch
                }
            };
            if !covered {
                out.violate(
                    "value-used-before-covering-boundary-is-durable",
                    format!(
                        "{name}: value {:#x} used in incarnation {} at t={} while the store held {:x?}",
                        u.value, u.incarnation, u.time, u.durable
                    ),
                );
            }
        }
    }
}

pub struct CtrScenario {
    pub name: &'static str,
    pub knobs: CtrKnobs,
}

impl Scenario for CtrScenario {
    fn property(&self) -> &'static str {
        "C12"
    }

    fn name(&self) -> &'static str {
        self.name
    }

    fn run(&self, seed: u64) -> Outcome {
        let cfg = gen_cfg(&self.knobs);
        let run = drive(seed, cfg);
        let mut out = Outcome::default();
        check(&run, &mut out);
        for (k, v) in &run.notes {
            out.count(k, *v);
        }
        out.count("incarnations", run.incarnations as u64);
        out.count("fault_kv_error", run.kv_errs);
        out.count("fault_crash_at_kv_op", run.kv_crashes);
        out.count(
            "fault_crash_between_operations",
            run.cfg.script.iter().filter(|o| **o == CtrOp::Restart).count() as u64,
        );
        out.count("kv_mutating_ops", run.kv_ops as u64);
        out.count("runs_script_done", run.done as u64);
        out.count("runs_hit_bound", matches!(run.stop, StopReason::MaxPolls) as u64);
        let epochs = |k: Kind, e: u64| {
            let mut b: Vec<u64> = run.used.iter().filter(|u| u.kind == k).filter_map(|u| u.durable).collect();
            b.dedup();
            let _ = e;
            b.len().saturating_sub(1) as u64
        };
        out.count("group_boundary_moves_observed", epochs(Kind::Group, GROUP_EPOCH as u64));
        out.count("event_epoch_moves_observed", epochs(Kind::Event, EVENT_EPOCH));
        out.count("checkin_boundary_moves_observed", epochs(Kind::CheckIn, 0));
        out.sim_time_us = run.end_time;
        out.nontrivial = run.incarnations > 1 || run.kv_errs > 0;
        let mut sig: u64 = 0xcbf2_9ce4_8422_2325;
        for x in [run.incarnations as u64, run.kv_ops as u64, run.used.len() as u64] {
            sig ^= x;
            sig = sig.wrapping_mul(0x0000_0100_0000_01B3);
        }
        out.state_sigs.push(sig);
        out.sample = Some(json!({
            "script": run.cfg.script.iter().map(|o| format!("{:?}", o)).collect::<Vec<_>>(),
            "seeded_store": format!("group={:x?} event={:?} checkin={:x?}", run.cfg.seed_group, run.cfg.seed_event, run.cfg.seed_checkin),
            "checkin_epoch": run.cfg.checkin_epoch,
            "kv_faults": run.cfg.kv_faults.iter().map(|f| format!("{:?}", f)).collect::<Vec<_>>(),
            "incarnations": run.incarnations,
            "values_used": run.used.len(),
        }));
        if std::env::var_os("VERIF_DUMP").is_some() {
            eprintln!("CFG {:#?}", run.cfg);
            for u in &run.used {
                eprintln!("USED {:?}", u);
            }
            eprintln!("NOTES {:?} incarnations={} kv_ops={}", run.notes, run.incarnations, run.kv_ops);
        }
        out
    }
}

const ASSUMPTIONS: &[&str] = &[
    "harness (executor, store, network tap, oracles) is trusted",
    "the store contract: each store/remove is atomic per key and durable when it returns Ok (SimKv); a crash loses everything else",
    "the Check-In counter is driven the way the interface tells an application to: load_counter, persist_counter, then per batch next_counter / send / advance_counter; when advance_counter reports a failed store the application repeats persist_counter until it succeeds before it sends again; the Check-In message itself is not sent (needs mDNS resolution), the value peeked for it counts as used",
    "event numbers count as used when handed to the emitting application",
    "fewer values than the counter range are drawn per run, so a repeat is never a legitimate wrap",
    "sampling, not enumeration",
];

pub fn defs() -> Vec<PropertyDef> {
    vec![PropertyDef {
        id: "C12",
        level: "fault_enumeration",
        families: vec![
            Family {
                scenario: Box::new(CtrScenario {
                    name: "counters-fault-free",
                    knobs: CtrKnobs { crashes: false, store_errors: false, long_runs: true },
                }),
                weight: 1,
                fault_free: true,
            },
            Family {
                scenario: Box::new(CtrScenario {
                    name: "counters-crash-restart",
                    knobs: CtrKnobs { crashes: true, store_errors: false, long_runs: true },
                }),
                weight: 4,
                fault_free: false,
            },
            Family {
                scenario: Box::new(CtrScenario {
                    name: "counters-store-errors",
                    knobs: CtrKnobs { crashes: true, store_errors: true, long_runs: true },
                }),
                weight: 3,
                fault_free: false,
            },
        ],
        rule: "each run = a script of 2-11 operations (send n group data messages, emit n events, run n Check-In batches, restart), a store seeded with tape-chosen boundaries (absent, random, next to the wrap of the 28-bit / 32-bit range, epoch multiples), a Check-In epoch of 1-100, and up to 3 faults placed at individual mutating store operations (crash before / after the operation; in the store-errors family also an error return); distinct = distinct trace hash; non-trivial = at least one restart or store error happened",
        assumptions: ASSUMPTIONS.to_vec(),
        real: "rs-matter group data message counter (reservation, boundary persistence, resume), Exchange::initiate_group + send through the real transport and packet encoder (values read off the wire), event number epochs (Events::push via the Interaction Model), CheckInCounter / Icd counter API, Matter::startup / InteractionModel::startup persistence loading",
        stubbed: "key-value store (SimKv with crash / error injection), network (tap only), application (script); the fabric with its group key is installed directly; the Check-In message itself is not sent",
        budget_s: (45, 450),
    }]
}
