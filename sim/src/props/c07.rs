//! C07: nothing bound to a fabric outlives that fabric. Full world, two controllers with their
//! own CAs; fabric rollback (fail-safe timer / forced expiry) and RemoveFabric placed at
//! tape-chosen points relative to the other traffic, followed by re-commissioning that re-uses
//! the local fabric index.

use std::collections::BTreeMap;

use serde_json::json;

use crate::kernel::{SchedCfg, MS, SEC};
use crate::props::full_props::common_counters;
use crate::props::{Family, PropertyDef};
use crate::runner::{Outcome, Scenario};
use crate::tape;
use crate::worlds::full::*;
use crate::worlds::full_drive::*;

/// Both controllers deliberately use the same operational node id: a session or record that
/// outlives its fabric then matches the *new* fabric's administrator ACL entry.
const CTL_NODE_ID: u64 = 112233;

pub struct Track {
    /// Identity (root hash) currently owning each fabric index, and its epoch
    owner: BTreeMap<u8, (u64, u32)>,
    epoch: BTreeMap<u8, u32>,
    /// session id -> (fab idx, epoch when first seen)
    sessions: BTreeMap<u32, (u8, u32)>,
    pub violations: Vec<(String, String)>,
    pub steps: u64,
    /// Live CASE sessions seen at the previous step: id -> (fabric index, epoch, local sid)
    live_case: BTreeMap<u32, (u8, u32, u16)>,
    /// Flag sessions of an untouched fabric that end (only meaningful without network faults)
    pub watch_session_ends: bool,
}

impl Track {
    pub fn new() -> Self {
        Track {
            owner: BTreeMap::new(),
            epoch: BTreeMap::new(),
            sessions: BTreeMap::new(),
            violations: Vec::new(),
            steps: 0,
            live_case: BTreeMap::new(),
            watch_session_ends: false,
        }
    }

    /// Invariants over one probed device state
    pub fn step(&mut self, time: u64, st: &DevState) {
        self.steps += 1;
        // Fabric ownership epochs
        let present: BTreeMap<u8, u64> = st.fabrics.iter().map(|f| (f.fab_idx, f.root_hash ^ f.noc_hash)).collect();
        let known: Vec<u8> = self.owner.keys().copied().collect();
        for idx in known {
            let gone = match present.get(&idx) {
                None => true,
                Some(h) => *h != self.owner[&idx].0,
            };
            if gone {
                self.owner.remove(&idx);
                *self.epoch.entry(idx).or_default() += 1;
            }
        }
        for (idx, h) in &present {
            if !self.owner.contains_key(idx) {
                let e = *self.epoch.entry(*idx).or_default();
                self.owner.insert(*idx, (*h, e));
            }
        }
        // Sessions
        for s in &st.snap.sessions {
            let f = s.mode.fab_idx();
            if f == 0 || s.reserved {
                continue;
            }
            let cur = *self.epoch.entry(f).or_default();
            let first = self.sessions.entry(s.id).or_insert((f, cur));
            if s.expired {
                // May finish its current exchange
                continue;
            }
            if !present.contains_key(&f) {
                // A PASE session upgraded by AddNOC lives under the fail-safe: its fabric is in the
                // table. Anything else without a fabric is a leftover.
                self.violations.push((
                    "C07-session-without-fabric".into(),
                    format!("t={time}: live session {} (local sid {}) is bound to fabric index {f} which does not exist", s.id, s.local_sess_id),
                ));
            } else if first.1 < cur {
                self.violations.push((
                    "C07-session-predates-fabric-at-its-index".into(),
                    format!(
                        "t={time}: live session {} (local sid {}, peer node {:?}) was established under a previous owner of fabric index {f}",
                        s.id, s.local_sess_id, s.peer_nodeid
                    ),
                ));
            }
        }
        // A CASE session of a fabric which is still there, untouched, must not end because
        // something happened to another fabric
        let mut now_live: BTreeMap<u32, (u8, u32, u16)> = BTreeMap::new();
        for s in &st.snap.sessions {
            let f = s.mode.fab_idx();
            if f != 0 && !s.reserved && !s.expired && matches!(s.mode, rs_matter::transport::session::SessionMode::Case { .. }) {
                now_live.insert(s.id, (f, *self.epoch.entry(f).or_default(), s.local_sess_id));
            }
        }
        if self.watch_session_ends {
            for (id, (f, e, sid)) in &self.live_case {
                let fabric_untouched = present.contains_key(f) && *self.epoch.entry(*f).or_default() == *e;
                if fabric_untouched && !now_live.contains_key(id) {
                    self.violations.push((
                        "C07-session-of-untouched-fabric-ended".into(),
                        format!("t={time}: CASE session {id} (local sid {sid}) of fabric index {f} ended although nothing happened to that fabric"),
                    ));
                }
            }
        }
        self.live_case = now_live;
        // Resumption records
        for (f, peer) in &st.snap.resumption {
            if !present.contains_key(f) {
                self.violations.push((
                    "C07-resumption-record-without-fabric".into(),
                    format!("t={time}: resumption record for peer {peer:#x} of fabric index {f} which does not exist"),
                ));
            }
        }
    }
}

fn results(run: &FullRun, node: usize) -> Vec<(&'static str, u16, u64)> {
    run.log
        .iter()
        .filter(|e| e.node == node)
        .filter_map(|e| match &e.kind {
            FullKind::Step {
                name,
                result: Some(r),
            } => Some((*name, *r, e.time)),
            _ => None,
        })
        .collect()
}

pub struct RollbackReuse {
    pub faults: bool,
}

impl Scenario for RollbackReuse {
    fn property(&self) -> &'static str {
        "C07"
    }
    fn name(&self) -> &'static str {
        if self.faults {
            "rollback-then-index-reuse"
        } else {
            "rollback-then-index-reuse-fault-free"
        }
    }

    fn run(&self, seed: u64) -> Outcome {
        // Controller A stages a fabric (phase 1), talks to the device over CASE on the pending
        // fabric, and never completes. The fail-safe ends by timer or by force. Then B commissions.
        let how = tape::choose(2); // 0 = timer, 1 = ArmFailSafe(0) over A's CASE session
        let a_reads_before = 1 + tape::choose(2) as usize;
        let b_delay_ms = 75_000 + tape::choose(20) as u32 * 1_000;
        let mut a_script = vec![CtlStep::CommissionPhase1 { dev: 0 }];
        for _ in 0..a_reads_before {
            a_script.push(CtlStep::ReadOnOff { dev: 0 });
        }
        // ... and, in half of the runs, rewrites the pending fabric's ACL over that CASE session
        let a_writes_acl = tape::choose(2) == 1;
        if a_writes_acl {
            a_script.push(CtlStep::AclWrite { dev: 0, subject: 0x7777 });
        }
        if how == 1 {
            a_script.push(CtlStep::Sleep {
                ms: tape::choose(40) * 500,
            });
            a_script.push(CtlStep::ArmFailSafe { dev: 0, secs: 0 });
        }
        // Probes with the old credentials: after the rollback, and after B took over the index
        a_script.push(CtlStep::Sleep { ms: 66_000 });
        a_script.push(CtlStep::ReadOnOff { dev: 0 });
        a_script.push(CtlStep::Sleep { ms: 60_000 });
        a_script.push(CtlStep::ReadOnOff { dev: 0 });
        a_script.push(CtlStep::Toggle { dev: 0 });
        a_script.push(CtlStep::Sleep { ms: 10_000 });
        a_script.push(CtlStep::ReadOnOff { dev: 0 });

        let b_script = vec![
            CtlStep::Sleep { ms: b_delay_ms },
            CtlStep::Commission { dev: 0 },
            CtlStep::ReadOnOff { dev: 0 },
            CtlStep::Sleep { ms: 60_000 },
            CtlStep::ReadOnOff { dev: 0 },
        ];

        let net = if self.faults && tape::chance(400) {
            UniformNet {
                latency_us: 500,
                jitter_us: 3000,
                drop_permille: [20, 80][tape::choose(2) as usize],
                dup_permille: 40,
                hold_permille: 40,
                hold_max_ms: 400,
                ..Default::default()
            }
        } else {
            UniformNet {
                latency_us: 1000,
                ..Default::default()
            }
        };
        let cfg = FullCfg {
            n_devices: 1,
            controllers: vec![
                CtlSpec {
                    fabric_id: 1,
                    node_id: CTL_NODE_ID,
                    script: a_script,
                    continue_on_error: true,
                },
                CtlSpec {
                    fabric_id: 2,
                    node_id: CTL_NODE_ID,
                    script: b_script,
                    continue_on_error: true,
                },
            ],
            handlers: 3,
            net,
            sched: SchedCfg {
                nonfifo_permille: if self.faults { [0, 100, 300][tape::choose(3) as usize] } else { 0 },
                max_polls: 4_000_000,
                max_time: 3_000 * SEC,
                ..Default::default()
            },
            limit_us: 2_000 * SEC,
            kv_faults: vec![],
            crashes: vec![],
            restart_after_us: 300 * MS,
            cancels: vec![],
            calm_at_us: None,
        };

        let mut track = Track::new();
        let run = drive_full_with(seed, cfg, &mut |t, states| {
            if let Some(Some(st)) = states.first() {
                track.step(t, st);
            }
        });
        let mut out = Outcome::default();
        common_counters(&run, &mut out);
        for (o, d) in &track.violations {
            out.violate(o, d.clone());
        }

        let a = results(&run, 1);
        let b = results(&run, 2);
        let phase1_ok = a.iter().any(|(n, r, _)| *n == "commission_phase1" && *r == 0xffff);
        let b_commissioned_at = b.iter().find(|(n, r, _)| *n == "commission" && *r == 0xffff).map(|x| x.2);
        let a_reads: Vec<(u16, u64)> = a.iter().filter(|(n, _, _)| *n == "read_onoff").map(|(_, r, t)| (*r, *t)).collect();
        // When did the device's fail-safe end? (from A's perspective: 60 s after arming, or the force)
        let describe = || {
            format!(
                "how={} A={:?} B={:?}",
                if how == 0 { "timer" } else { "ArmFailSafe(0)" },
                a.iter().map(|(n, r, t)| format!("{n}:{r:x}@{}", t / 1000)).collect::<Vec<_>>(),
                b.iter().map(|(n, r, t)| format!("{n}:{r:x}@{}", t / 1000)).collect::<Vec<_>>()
            )
        };
        if run.all_done && phase1_ok {
            out.count("c07_rollbacks", 1);
            if a.iter().any(|(n, r, _)| *n == "acl_write" && *r == 0xffff) {
                out.count("probe_acl_written_on_pending_fabric", 1);
            }
            // A's probes after the rollback (the last three reads + the toggle) must all fail
            let late: Vec<&(u16, u64)> = a_reads.iter().skip(a_reads_before).collect();
            if late.iter().any(|(r, _)| *r == 0xffff) {
                out.violate("C07-old-credentials-still-work", describe());
            }
            if a.iter().any(|(n, r, _)| *n == "toggle" && *r == 0xffff) {
                out.violate("C07-old-credentials-still-work", describe());
            }
            if let Some(t) = b_commissioned_at {
                out.count("probe_fabric_index_reused", 1);
                let _ = t;
                // ... and B, untouched, keeps working
                let b_reads: Vec<u16> = b.iter().filter(|(n, _, _)| *n == "read_onoff").map(|(_, r, _)| *r).collect();
                if b_reads.iter().any(|r| *r != 0xffff) && !self.faults {
                    out.violate("C07-unrelated-fabric-disturbed", describe());
                }
            }
        } else {
            out.count("runs_incomplete", 1);
        }
        out.count("invariant_steps", track.steps);
        out.nontrivial = phase1_ok && run.all_done;
        out.state_sigs.push((how as u64) << 8 | (a_writes_acl as u64) << 4 | a_reads_before as u64);
        out.sample = Some(json!({"expiry": if how == 0 { "timer" } else { "ArmFailSafe(0)" }, "a_reads_before": a_reads_before, "a_writes_acl": a_writes_acl, "b_delay_ms": b_delay_ms,
            "A": a.iter().map(|(n, r, t)| format!("{n}:{r:x}@{}ms", t / 1000)).collect::<Vec<_>>(),
            "B": b.iter().map(|(n, r, t)| format!("{n}:{r:x}@{}ms", t / 1000)).collect::<Vec<_>>()}));
        out
    }
}

pub struct RemoveFabric {
    pub faults: bool,
    /// Judge the run for C01 (a peer whose fabric is gone gets no session, also after the fabric
    /// index was taken by another fabric) instead of C07
    pub c01: bool,
}

impl Scenario for RemoveFabric {
    fn property(&self) -> &'static str {
        if self.c01 {
            "C01"
        } else {
            "C07"
        }
    }
    fn name(&self) -> &'static str {
        if self.c01 {
            "expelled-peer-after-index-reuse"
        } else if self.faults {
            "remove-fabric-vs-traffic"
        } else {
            "remove-fabric-fault-free"
        }
    }

    fn run(&self, seed: u64) -> Outcome {
        // A commissions, opens a window, B commissions (fabric index 2). A removes B's fabric at a
        // tape-chosen instant while B is reading. Then A opens a window again and B' (a third
        // controller with yet another CA but the same node id) takes index 2.
        let remove_at_ms = 6_000 + tape::choose(12_000) as u32;
        let a_script = vec![
            CtlStep::Commission { dev: 0 },
            CtlStep::OpenWindow { dev: 0, secs: 300 },
            CtlStep::Sleep { ms: remove_at_ms },
            CtlStep::RemoveFabric { dev: 0, fabric_index: 2 },
            CtlStep::ReadOnOff { dev: 0 },
            CtlStep::OpenWindow { dev: 0, secs: 300 },
            CtlStep::Sleep { ms: 60_000 },
            CtlStep::ReadOnOff { dev: 0 },
        ];
        let mut b_script = vec![CtlStep::Sleep { ms: 5_000 }, CtlStep::Commission { dev: 0 }];
        // B keeps reading around the removal instant - or has gone quiet before it (and then still
        // holds whatever it cached about its sessions when it comes back)
        let b_reads = [12, 12, 1, 3][tape::choose(4) as usize];
        for _ in 0..b_reads {
            b_script.push(CtlStep::ReadOnOff { dev: 0 });
            b_script.push(CtlStep::Sleep {
                ms: 200 + tape::choose(8) * 250,
            });
        }
        b_script.push(CtlStep::Sleep { ms: 70_000 });
        b_script.push(CtlStep::ReadOnOff { dev: 0 });
        b_script.push(CtlStep::Toggle { dev: 0 });
        let c_script = vec![
            CtlStep::Sleep { ms: 40_000 },
            CtlStep::Commission { dev: 0 },
            CtlStep::ReadOnOff { dev: 0 },
            CtlStep::Sleep { ms: 60_000 },
            CtlStep::ReadOnOff { dev: 0 },
        ];
        let net = if self.faults && tape::chance(400) {
            UniformNet {
                latency_us: 500,
                jitter_us: 3000,
                drop_permille: [20, 80][tape::choose(2) as usize],
                dup_permille: 40,
                hold_permille: 40,
                hold_max_ms: 400,
                ..Default::default()
            }
        } else {
            UniformNet {
                latency_us: 1000,
                ..Default::default()
            }
        };
        let cfg = FullCfg {
            n_devices: 1,
            controllers: vec![
                CtlSpec {
                    fabric_id: 1,
                    node_id: CTL_NODE_ID,
                    script: a_script,
                    continue_on_error: true,
                },
                CtlSpec {
                    fabric_id: 2,
                    node_id: CTL_NODE_ID,
                    script: b_script,
                    continue_on_error: true,
                },
                CtlSpec {
                    fabric_id: 3,
                    node_id: CTL_NODE_ID,
                    script: c_script,
                    continue_on_error: true,
                },
            ],
            handlers: 4,
            net,
            sched: SchedCfg {
                nonfifo_permille: if self.faults { [0, 100, 300][tape::choose(3) as usize] } else { 0 },
                max_polls: 4_000_000,
                max_time: 3_000 * SEC,
                ..Default::default()
            },
            limit_us: 2_000 * SEC,
            kv_faults: vec![],
            crashes: vec![],
            restart_after_us: 300 * MS,
            cancels: vec![],
            calm_at_us: None,
        };
        let mut track = Track::new();
        let run = drive_full_with(seed, cfg, &mut |t, states| {
            if let Some(Some(st)) = states.first() {
                track.step(t, st);
            }
        });
        let mut out = Outcome::default();
        common_counters(&run, &mut out);
        if !self.c01 {
            for (o, d) in &track.violations {
                out.violate(o, d.clone());
            }
        }
        let a = results(&run, 1);
        let b = results(&run, 2);
        let c = results(&run, 3);
        let removed_at = a.iter().find(|(n, r, _)| *n == "remove_fabric" && *r == 0xffff).map(|x| x.2);
        let describe = || {
            format!(
                "A={:?} B={:?} C={:?}",
                a.iter().map(|(n, r, t)| format!("{n}:{r:x}@{}", t / 1000)).collect::<Vec<_>>(),
                b.iter().map(|(n, r, t)| format!("{n}:{r:x}@{}", t / 1000)).collect::<Vec<_>>(),
                c.iter().map(|(n, r, t)| format!("{n}:{r:x}@{}", t / 1000)).collect::<Vec<_>>()
            )
        };
        let b_commissioned = b.iter().any(|(n, r, _)| *n == "commission" && *r == 0xffff);
        if run.all_done && b_commissioned {
            if let Some(t_rm) = removed_at {
                out.count("c07_removals", 1);
                // Any operation B *starts* well after the removal was confirmed must fail
                let b_starts: Vec<(&'static str, u64)> = run
                    .log
                    .iter()
                    .filter(|e| e.node == 2)
                    .filter_map(|e| match &e.kind {
                        FullKind::Step { name, result: None } => Some((*name, e.time)),
                        _ => None,
                    })
                    .collect();
                let b_ends: Vec<&(&'static str, u16, u64)> = b.iter().collect();
                for (i, (name, t_start)) in b_starts.iter().enumerate() {
                    if (*name == "read_onoff" || *name == "toggle") && *t_start > t_rm + 100 * MS {
                        if let Some((_, r, _)) = b_ends.get(i) {
                            if *r == 0xffff {
                                out.violate(
                                    if self.c01 { "C01-expelled-peer-admitted" } else { "C07-old-credentials-still-work" },
                                    format!("B's {name} started at {t_start} after RemoveFabric confirmed at {t_rm} succeeded; {}", describe()),
                                );
                            }
                        }
                    }
                }
                // A (untouched fabric) keeps working
                if !self.faults && !self.c01 && a.iter().filter(|(n, _, t)| *n == "read_onoff" && *t > t_rm).any(|(_, r, _)| *r != 0xffff) {
                    out.violate("C07-unrelated-fabric-disturbed", describe());
                }
                if c.iter().any(|(n, r, _)| *n == "commission" && *r == 0xffff) {
                    out.count("probe_fabric_index_reused", 1);
                }
            }
        } else {
            out.count("runs_incomplete", 1);
        }
        out.count("invariant_steps", track.steps);
        out.nontrivial = removed_at.is_some();
        out.state_sigs.push((remove_at_ms as u64 / 500) << 8 | b_reads as u64);
        out.sample = Some(json!({"remove_at_ms": remove_at_ms, "b_reads_before_pause": b_reads,
            "A": a.iter().map(|(n, r, t)| format!("{n}:{r:x}@{}ms", t / 1000)).collect::<Vec<_>>(),
            "B": b.iter().map(|(n, r, t)| format!("{n}:{r:x}@{}ms", t / 1000)).collect::<Vec<_>>(),
            "C": c.iter().map(|(n, r, t)| format!("{n}:{r:x}@{}ms", t / 1000)).collect::<Vec<_>>()}));
        out
    }
}


/// A committed fabric (controller A, live CASE session, regular reads) next to a fabric staged by
/// controller B under the fail-safe, which is then rolled back: by the timer while A's requests keep
/// arriving around the expiry instant, or by A revoking the commissioning over its own session.
pub struct RollbackNextToLiveFabric {
    pub faults: bool,
}

impl Scenario for RollbackNextToLiveFabric {
    fn property(&self) -> &'static str {
        "C07"
    }
    fn name(&self) -> &'static str {
        if self.faults {
            "rollback-next-to-live-fabric"
        } else {
            "rollback-next-to-live-fabric-fault-free"
        }
    }

    fn run(&self, seed: u64) -> Outcome {
        let how = tape::choose(2); // 0 = timer, 1 = RevokeCommissioning by A
        let b_start_ms = 5_000 + tape::choose(10) * 500;
        let mut a_script = vec![CtlStep::Commission { dev: 0 }, CtlStep::OpenWindow { dev: 0, secs: 600 }];
        // Reads all along: some land right around the expiry of B's fail-safe (60 s after it armed)
        let gap = 150 + tape::choose(8) * 110;
        let mut t = 0u32;
        let revoke_at = b_start_ms + 4_000 + tape::choose(40) * 500;
        let mut revoked = false;
        while t < 90_000 {
            a_script.push(CtlStep::ReadOnOff { dev: 0 });
            a_script.push(CtlStep::Sleep { ms: gap });
            t += gap + 10;
            if how == 1 && !revoked && t >= revoke_at {
                a_script.push(CtlStep::Revoke { dev: 0 });
                revoked = true;
            }
        }
        a_script.push(CtlStep::ReadOnOff { dev: 0 });
        let b_script = vec![
            CtlStep::Sleep { ms: b_start_ms },
            CtlStep::CommissionPhase1 { dev: 0 },
            CtlStep::ReadOnOff { dev: 0 },
            CtlStep::Sleep { ms: 100_000 },
            CtlStep::ReadOnOff { dev: 0 },
        ];
        let net = if self.faults && tape::chance(500) {
            UniformNet {
                latency_us: 500,
                jitter_us: 3000,
                drop_permille: [20, 80][tape::choose(2) as usize],
                dup_permille: 40,
                hold_permille: 40,
                hold_max_ms: 400,
                ..Default::default()
            }
        } else {
            UniformNet {
                latency_us: 1000,
                ..Default::default()
            }
        };
        let lossy = net.drop_permille > 0;
        let cfg = FullCfg {
            n_devices: 1,
            controllers: vec![
                CtlSpec { fabric_id: 1, node_id: CTL_NODE_ID, script: a_script, continue_on_error: true },
                CtlSpec { fabric_id: 2, node_id: CTL_NODE_ID, script: b_script, continue_on_error: true },
            ],
            handlers: 4,
            net,
            sched: SchedCfg {
                nonfifo_permille: if self.faults { [0, 100, 300][tape::choose(3) as usize] } else { 0 },
                max_polls: 4_000_000,
                max_time: 3_000 * SEC,
                ..Default::default()
            },
            limit_us: 2_000 * SEC,
            kv_faults: vec![],
            crashes: vec![],
            restart_after_us: 300 * MS,
            cancels: vec![],
            calm_at_us: None,
        };
        let mut track = Track::new();
        // Without loss no session of the committed fabric has a reason to end
        track.watch_session_ends = !lossy;
        let run = drive_full_with(seed, cfg, &mut |t, states| {
            if let Some(Some(st)) = states.first() {
                track.step(t, st);
            }
        });
        let mut out = Outcome::default();
        common_counters(&run, &mut out);
        for (o, d) in &track.violations {
            out.violate(o, d.clone());
        }
        let a = results(&run, 1);
        let b = results(&run, 2);
        let describe = || {
            format!(
                "how={} A={:?} B={:?}",
                if how == 0 { "timer" } else { "RevokeCommissioning" },
                a.iter().filter(|(n, _, _)| *n != "sleep").map(|(n, r, t)| format!("{n}:{r:x}@{}", t / 1000)).collect::<Vec<_>>(),
                b.iter().filter(|(n, _, _)| *n != "sleep").map(|(n, r, t)| format!("{n}:{r:x}@{}", t / 1000)).collect::<Vec<_>>()
            )
        };
        let a_ok = a.iter().any(|(n, r, _)| *n == "commission" && *r == 0xffff);
        let b_staged = b.iter().any(|(n, r, _)| *n == "commission_phase1" && *r == 0xffff);
        if run.all_done && a_ok && b_staged {
            out.count("c07_rollbacks_next_to_live_fabric", 1);
            // B's credentials are gone after the rollback
            if let Some((_, r, _)) = b.iter().filter(|(n, _, _)| *n == "read_onoff").last() {
                if *r == 0xffff {
                    out.violate("C07-old-credentials-still-work", describe());
                }
            }
            // A keeps working throughout
            if !lossy && a.iter().any(|(n, r, _)| *n == "read_onoff" && *r != 0xffff) {
                out.violate("C07-unrelated-fabric-disturbed", describe());
            }
        } else {
            out.count("runs_incomplete", 1);
        }
        out.count("invariant_steps", track.steps);
        out.nontrivial = a_ok && b_staged;
        out.state_sigs.push((how as u64) << 8 | gap as u64);
        out.sample = Some(json!({"rollback": if how == 0 { "timer" } else { "RevokeCommissioning by the other fabric's administrator" }, "read_gap_ms": gap,
            "B": b.iter().map(|(n, r, t)| format!("{n}:{r:x}@{}ms", t / 1000)).collect::<Vec<_>>()}));
        out
    }
}

pub fn defs() -> Vec<PropertyDef> {
    vec![PropertyDef {
        id: "C07",
        level: "exploration",
        families: vec![
            Family {
                scenario: Box::new(RollbackReuse { faults: false }),
                weight: 1,
                fault_free: true,
            },
            Family {
                scenario: Box::new(RollbackReuse { faults: true }),
                weight: 3,
                fault_free: false,
            },
            Family {
                scenario: Box::new(RemoveFabric { faults: false, c01: false }),
                weight: 1,
                fault_free: true,
            },
            Family {
                scenario: Box::new(RemoveFabric { faults: true, c01: false }),
                weight: 3,
                fault_free: false,
            },
            Family {
                scenario: Box::new(RollbackNextToLiveFabric { faults: false }),
                weight: 2,
                fault_free: true,
            },
            Family {
                scenario: Box::new(RollbackNextToLiveFabric { faults: true }),
                weight: 2,
                fault_free: false,
            },
        ],
        rule: "rollback family: controller A stages a fabric (PASE .. AddNOC), uses it over CASE, never completes; the fail-safe ends by timer or ArmFailSafe(0) at a tape-chosen instant; A then probes with its old session and fresh CASE (full and resumed) before and after controller B (own CA, same node id) commissions the device and receives the same fabric index. removal family: A and B commissioned, A removes B's fabric at a tape-chosen millisecond while B is reading, then C (third CA, same node id) takes the freed index. Invariants on every 100 ms probe of the device: no live session / resumption record bound to a missing fabric index or predating the current owner of its index. distinct = distinct trace hash; non-trivial = the rollback / removal actually happened and the scripts ran to the end",
        assumptions: vec![
            "Ethernet device; group keys / ACL of a removed fabric are covered through the fabric table itself (one blob per fabric)",
            "subscriptions of a removed fabric are not exercised in these families",
            "harness, oracles trusted; sampling, not enumeration",
        ],
        real: "device: whole stack incl. fail-safe, operational credentials (AddNOC, RemoveFabric), administrator commissioning, CASE responder + resumption, session table; controllers: Commissioner, CASE initiator (resumption), IM client",
        stubbed: "network, clock, RNG, KV back-end, mDNS (stub resolver), attestation (test DAC), application cluster (test OnOff)",
        budget_s: (90, 600),
    }]
}
