//! Properties decided in the mrp world: C09, C15 (tap), C04 (system level).

use serde_json::{json, Value};

use crate::props::mrp_oracles::*;
use crate::props::{Family, PropertyDef};
use crate::runner::{Outcome, Scenario};
use crate::tape;
use crate::worlds::mrp_drive::*;

#[derive(Clone, Copy, PartialEq, Eq)]
pub enum Which {
    C09,
    C15,
    C04,
    C10,
}

pub struct MrpScenario {
    pub which: Which,
    pub name: &'static str,
    pub knobs: MrpKnobs,
}

pub fn sample_of(run: &MrpRun) -> Value {
    let wl: Vec<Value> = run
        .cfg
        .workloads
        .iter()
        .enumerate()
        .flat_map(|(n, lists)| {
            lists.iter().flat_map(move |l| {
                l.iter().map(move |w| {
                    json!({"node": n, "id": w.id, "session": w.planted, "start_delay_ms": w.start_delay_ms,
                        "script": w.script.iter().map(|s| format!("{:#04x}", s.0)).collect::<Vec<_>>(), "final_ack": w.final_ack})
                })
            })
        })
        .collect();
    let first_events: Vec<String> = run
        .log
        .iter()
        .take(12)
        .map(|e| format!("t={} n{} wl{} {:?}", e.time, e.node, e.wl, e.kind))
        .collect();
    json!({
        "sessions": run.cfg.planted.iter().map(|p| format!("{:?}", p.kind)).collect::<Vec<_>>(),
        "workloads": wl,
        "handlers": run.cfg.handlers,
        "sai_ms": run.cfg.sai,
        "clock_ppm": run.cfg.ppm,
        "net": format!("{:?}", run.cfg.net),
        "sched": format!("nonfifo={} burst={} overtake={}", run.cfg.sched.nonfifo_permille, run.cfg.sched.burst_permille, run.cfg.sched.overtake_permille),
        "datagrams": run.dgrams.len(),
        "simulated_ms": run.end_time / 1000,
        "first_app_events": first_events,
    })
}

pub fn common_counters(run: &MrpRun, out: &mut Outcome) {
    for (k, v) in &run.fired {
        out.count(&format!("fault_{k}"), *v);
    }
    out.count("net_sent", run.net.sent);
    out.count("net_delivered", run.net.delivered);
    out.count("net_duplicated_copies", run.net.duplicated);
    out.count("net_dropped", run.net.dropped);
    out.count("sched_nonfifo_choices", run.exec.nonfifo);
    out.count("sched_bursts", run.exec.bursts);
    out.count("sched_overtakes", run.exec.overtakes);
    out.count("polls", run.exec.polls);
    out.count("runs_all_workloads_done", run.all_done as u64);
    out.count(
        "runs_hit_bound",
        matches!(run.stop, crate::kernel::StopReason::MaxPolls) as u64,
    );
    out.sim_time_us = run.end_time;
    let faults: u64 = run.fired.values().sum();
    let work = run
        .log
        .iter()
        .any(|e| matches!(e.kind, crate::worlds::mrp::AppKind::Recv { .. }));
    out.nontrivial = work && (faults > 0 || run.exec.nonfifo + run.exec.bursts + run.exec.overtakes > 0);
    // State signature: shape of the final session tables
    let mut sig: u64 = 0xcbf2_9ce4_8422_2325;
    for s in run.snaps.iter().flatten() {
        for sess in &s.sessions {
            for x in [
                sess.exchanges.len() as u64,
                sess.expired as u64,
                sess.rx_bitmap as u64,
                sess.exchanges.iter().map(|e| e.state as u64 + 1).sum::<u64>(),
            ] {
                sig ^= x;
                sig = sig.wrapping_mul(0x0000_0100_0000_01B3);
            }
        }
    }
    out.state_sigs.push(sig);
}

impl Scenario for MrpScenario {
    fn property(&self) -> &'static str {
        match self.which {
            Which::C09 => "C09",
            Which::C15 => "C15",
            Which::C04 => "C04",
            Which::C10 => "C10",
        }
    }

    fn name(&self) -> &'static str {
        self.name
    }

    fn run(&self, seed: u64) -> Outcome {
        let cfg = gen_cfg(seed, &self.knobs);
        let run = drive(seed, cfg);
        let mut out = Outcome::default();
        common_counters(&run, &mut out);
        match self.which {
            Which::C09 => check_c09(&run, &mut out),
            Which::C15 => {
                check_c15_tap(&run.dgrams, &mut out);
                check_c15_alloc(&run, &mut out);
                for (n, s) in run.snaps.iter().enumerate() {
                    if let Some(s) = s {
                        check_c15_snap(s, n, &mut out);
                    }
                }
            }
            Which::C04 => check_c04_sys(&run, &mut out),
            Which::C10 => check_c10(&run, &mut out),
        }
        out.sample = Some(sample_of(&run));
        if std::env::var_os("VERIF_DUMP").is_some() {
            for d in &run.dgrams {
                eprintln!(
                    "DG id={} t={} {}->{:?} len={} copies={} plain={:?} proto={:?} consumed={:?}",
                    d.id,
                    d.time,
                    d.src,
                    d.dst,
                    d.bytes.len(),
                    d.copies,
                    d.plain.as_ref().map(|p| (p.sess_id, p.ctr)),
                    d.proto.as_ref().map(|p| format!(
                        "xf={:#x} op={:#x} exch={} proto={:#x} ack={:?} plen={}",
                        p.exch_flags, p.opcode, p.exch_id, p.proto_id, p.ack, p.payload.len()
                    )),
                    d.consumed
                );
            }
            for e in &run.events {
                eprintln!("EV t={} n={} {:?}", e.time, e.node, e.ev);
            }
            for e in &run.log {
                eprintln!("APP t={} n={} wl={} init={} {:?}", e.time, e.node, e.wl, e.initiator, e.kind);
            }
        }
        out
    }
}


/// C10: a node which runs no responder at all (a pure initiator) receives unsolicited messages,
/// reliable ones and ones without the reliability flag. Nobody ever accepts those exchanges; the
/// transport has to drop them after the accept time-out, or the single RX slot stays occupied and
/// the node's own exchanges never see an answer again.
pub struct PureInitiator;

impl Scenario for PureInitiator {
    fn property(&self) -> &'static str {
        "C10"
    }

    fn name(&self) -> &'static str {
        "pure-initiator-gets-unsolicited-messages"
    }

    fn run(&self, seed: u64) -> Outcome {
        use crate::worlds::mrp::{Kind, Planted, Step, Workload};
        let mut cfg = gen_cfg(seed, &MrpKnobs::fault_free());
        // One session, node 1 without handlers
        cfg.planted.truncate(1);
        cfg.planted[0] = Planted { kind: if tape::biased(2, 300) == 1 { Kind::Pase } else { Kind::Case }, ..cfg.planted[0].clone() };
        cfg.handlers = vec![2, 0];
        cfg.settle = false;
        let mut id = 1u16;
        let mut unsolicited = Vec::new();
        let n = 1 + tape::choose(3);
        for _ in 0..n {
            let unreliable = tape::biased(2, 500) == 1;
            unsolicited.push(Workload {
                id,
                planted: 0,
                start_delay_ms: tape::choose(8) * 100,
                script: vec![Step(if unreliable { Step::UNRELIABLE } else { 0 })],
                final_ack: false,
                group: false,
            });
            id += 1;
        }
        // Node 1's own requests: well after the accept time-out (1 s) of the last unsolicited message
        let mut own = Vec::new();
        for k in 0..(1 + tape::choose(2)) {
            own.push(Workload {
                id,
                planted: 0,
                start_delay_ms: if k == 0 { 4_000 + tape::choose(10) * 100 } else { 200 },
                script: vec![Step(0), Step(Step::BY_RESPONDER)],
                final_ack: true,
                group: false,
            });
            id += 1;
        }
        let own_ids: Vec<u16> = own.iter().map(|w| w.id).collect();
        cfg.workloads = vec![vec![unsolicited], vec![own]];
        cfg.limit_us = 120 * crate::kernel::SEC;
        let run = drive(seed, cfg);
        let mut out = Outcome::default();
        common_counters(&run, &mut out);
        check_c10(&run, &mut out);
        for wl in own_ids {
            let done = run.log.iter().find_map(|e| match &e.kind {
                crate::worlds::mrp::AppKind::Done { result } if e.wl == wl && e.initiator => Some(*result),
                _ => None,
            });
            out.count("own_requests_of_the_pure_initiator", 1);
            if done != Some(crate::worlds::mrp::OK) {
                out.violate(
                    "C10-receive-path-wedged",
                    format!(
                        "node 1 (no responder) request {wl} ended with {:x?}: unsolicited messages nobody accepts still occupy its receive path {} s after they arrived",
                        done, 3
                    ),
                );
            }
        }
        out.nontrivial = true;
        out.sample = Some(sample_of(&run));
        out
    }
}

const ASSUMPTIONS: &[&str] = &[
    "harness (executor, network, tape, oracles, tap decoder) is trusted",
    "UDP may lose, duplicate, reorder and delay datagrams but not forge authenticated content",
    "embassy_time::Instant is monotonic per node (no backward clock jumps generated)",
    "default single-threaded configuration (NoopRawMutex); sessions are planted through the public ReservedSession API",
    "sampling, not enumeration: a clean batch is evidence proportional to the counts reported, not a proof",
];

pub fn defs() -> Vec<PropertyDef> {
    vec![PropertyDef {
        id: "C09",
        level: "exploration",
        families: vec![
            Family {
                scenario: Box::new(MrpScenario {
                    which: Which::C09,
                    name: "mrp-fault-free",
                    knobs: MrpKnobs::fault_free(),
                }),
                weight: 1,
                fault_free: true,
            },
            Family {
                scenario: Box::new(MrpScenario {
                    which: Which::C09,
                    name: "mrp-faults",
                    knobs: MrpKnobs::full(),
                }),
                weight: 6,
                fault_free: false,
            },
        ],
        rule: "each run = swarm configuration (1-2 planted PASE/CASE sessions, 1-6 scripted exchanges from either node, handlers, SAI, clock skew, fault mix, scheduler deviation rates) drawn from one seed; distinct = distinct trace hash over (time, task poll, datagram, app event); non-trivial = at least one application message was received AND at least one fault fired or one non-FIFO scheduling decision was taken",
        assumptions: ASSUMPTIONS.to_vec(),
        real: "rs-matter transport, sessions, exchanges, MRP, dedup, packet codec, AES-CCM (RustCrypto), Exchange API",
        stubbed: "UDP sockets (simulated datagram network), monotonic clock (simulated embassy-time driver), RNG (seeded), application (scripted generic exchanges); sessions planted instead of PASE/CASE handshakes",
        budget_s: (60, 600),
    },
    PropertyDef {
        id: "C10",
        level: "exploration",
        families: vec![
            Family {
                scenario: Box::new(MrpScenario {
                    which: Which::C10,
                    name: "dispatch-fault-free",
                    knobs: MrpKnobs { settle: true, ..MrpKnobs::fault_free() },
                }),
                weight: 1,
                fault_free: true,
            },
            Family {
                scenario: Box::new(MrpScenario {
                    which: Which::C10,
                    name: "dispatch-faults",
                    knobs: MrpKnobs { settle: true, slow_handlers: true, cancel_handlers: true, allow_both: true, unreliable_permille: 150, ..MrpKnobs::full() },
                }),
                weight: 6,
                fault_free: false,
            },
            Family {
                scenario: Box::new(PureInitiator),
                weight: 1,
                fault_free: true,
            },
        ],
        rule: "each run = swarm configuration of the mrp world plus handlers that accept late / hold the RX message / are cancelled at a tape-chosen instant, full-duplex steps, followed by a fault-free settle phase, a 5 s quiet window and a probe request per live session; distinct = distinct trace hash; non-trivial = at least one application message received AND at least one fault/cancellation/non-FIFO decision",
        assumptions: ASSUMPTIONS.to_vec(),
        real: "rs-matter transport (RX/TX slot hand-over, accept timeout, orphan and dropped-exchange handling), sessions, exchanges, MRP, Exchange API",
        stubbed: "UDP sockets, clock, RNG, application handlers (scripted; late/never accepting, cancelled); sessions planted",
        budget_s: (60, 600),
    }]
}
