//! C02 (PASE admits only who knows the passcode, only while a window is open), C20 (unfinished
//! or hostile handshakes cannot leak resources) and C01 (CASE session agreement under on-path
//! mutation / replay / loss). Full world.

use std::collections::BTreeMap;

use rs_matter::transport::session::SessionMode;
use rs_matter::verif::{SlotSnap, Snapshot};
use serde_json::json;

use crate::kernel::{SchedCfg, MS, SEC};
use crate::props::full_props::common_counters;
use crate::props::{Family, PropertyDef};
use crate::runner::{Outcome, Scenario};
use crate::tape;
use crate::worlds::full::*;
use crate::worlds::full_drive::*;

const GOOD: u32 = TEST_PASSCODE;

fn results(run: &FullRun, node: usize) -> Vec<(&'static str, u16, u64)> {
    run.log
        .iter()
        .filter(|e| e.node == node)
        .filter_map(|e| match &e.kind {
            FullKind::Step {
                name,
                result: Some(r),
            } => Some((*name, *r, e.time)),
            _ => None,
        })
        .collect()
}

#[derive(Clone, Copy, PartialEq, Eq)]
pub enum Which {
    C02,
    C20,
}

pub struct PaseStorm {
    pub which: Which,
    pub faults: bool,
}

/// Invariants evaluated on every probe of the device
struct Watch {
    violations: Vec<(String, String)>,
    max_failures: u8,
    steps: u64,
    /// Node index -> passcode it uses
    passcodes: BTreeMap<usize, u32>,
    window_seen_closed_at: Option<u64>,
    last_failures: (u8, bool),
    /// Since when the "PASE establishment in progress" marker has been set without any exchange
    /// on an unsecured session at the device
    marker_alone_since: Option<u64>,
    marker_violations: Vec<(String, String)>,
}

impl Watch {
    fn step(&mut self, time: u64, st: &DevState) {
        self.steps += 1;
        if std::env::var_os("VERIF_DUMP").is_some() && self.last_failures != (st.snap.pase.pake_failures, st.window_open) {
            eprintln!("t={time} pake_failures={} window_open={}", st.snap.pase.pake_failures, st.window_open);
        }
        self.last_failures = (st.snap.pase.pake_failures, st.window_open);
        self.max_failures = self.max_failures.max(st.snap.pase.pake_failures);
        // (d) advertised as commissionable exactly while a window is open
        if st.commissionable_advertised != st.window_open {
            self.violations.push((
                "C02-advertisement-disagrees-with-window".into(),
                format!("t={time}: commissionable record advertised={} window open={}", st.commissionable_advertised, st.window_open),
            ));
        }
        if !st.window_open && self.window_seen_closed_at.is_none() {
            self.window_seen_closed_at = Some(time);
        }
        // (a) a PASE session at the device belongs to somebody who knows the passcode
        for s in &st.snap.sessions {
            if s.reserved || !matches!(s.mode, SessionMode::Pase { .. }) {
                continue;
            }
            let peer = crate::net::addr_node(&s.peer_addr);
            if let Some(p) = peer.and_then(|n| self.passcodes.get(&n)) {
                if *p != GOOD {
                    self.violations.push((
                        "C02-session-for-wrong-passcode".into(),
                        format!("t={time}: device holds PASE session {} with node {:?} which uses passcode {p}", s.id, peer),
                    ));
                }
            }
        }
        // The marker "a PASE establishment is in progress" belongs to a handshake: the responder
        // that set it is working on an exchange of an unsecured session
        let handshake_alive = st.snap.sessions.iter().any(|s| matches!(s.mode, SessionMode::PlainText) && !s.exchanges.is_empty());
        if st.snap.pase.establishing && !handshake_alive {
            match self.marker_alone_since {
                None => self.marker_alone_since = Some(time),
                Some(t0) if time - t0 >= 300 * MS && self.marker_violations.is_empty() => self.marker_violations.push((
                    "C20-pase-marker-left-behind".into(),
                    format!("t={time}: the establishment-in-progress marker has been set since t={t0} although no handshake exchange exists on the device (every new PASE attempt is answered Busy)"),
                )),
                _ => {}
            }
        } else {
            self.marker_alone_since = None;
        }
        if st.snap.pase.pake_failures > 20 {
            self.violations.push((
                "C02-more-than-20-failures-tolerated".into(),
                format!("t={time}: {} failed proofs recorded and the window is still there", st.snap.pase.pake_failures),
            ));
        }
    }
}

fn leftovers(snap: &Snapshot, who: &str) -> Vec<String> {
    let mut v = Vec::new();
    for s in &snap.sessions {
        if s.reserved {
            v.push(format!("{who}: reserved session {} (local sid {})", s.id, s.local_sess_id));
        }
        for e in &s.exchanges {
            v.push(format!("{who}: exchange {} on session {} role initiator={} state {}", e.exch_id, s.id, e.initiator, e.state));
        }
    }
    // (The PASE "establishment in progress" marker is cleared lazily: a stale one is overridden
    // by the next PBKDFParamRequest once its 60 s are over. Whether it blocks is decided by the
    // honest probe below, not by its mere presence.)
    if snap.rx_slot != SlotSnap::Empty {
        v.push(format!("{who}: RX slot {:?}", snap.rx_slot));
    }
    if snap.tx_slot != SlotSnap::Empty {
        v.push(format!("{who}: TX slot {:?}", snap.tx_slot));
    }
    if snap.mdns_resolve_in_flight {
        v.push(format!("{who}: mDNS resolve rendezvous occupied"));
    }
    if snap.mdns_browse_in_flight {
        v.push(format!("{who}: mDNS browse rendezvous occupied"));
    }
    v
}

impl Scenario for PaseStorm {
    fn property(&self) -> &'static str {
        match self.which {
            Which::C02 => "C02",
            Which::C20 => "C20",
        }
    }
    fn name(&self) -> &'static str {
        if self.faults {
            "handshake-storm"
        } else {
            "handshake-storm-fault-free"
        }
    }

    fn run(&self, seed: u64) -> Outcome {
        // 3-4 initiators; each a mix of: right / wrong passcode, complete / abandon at a
        // tape-chosen instant; the last one is the honest probe after everything settled
        let n_init = 2 + tape::choose(3) as usize;
        let mut controllers = Vec::new();
        let mut cancels = Vec::new();
        let mut passcodes = BTreeMap::new();
        let many_wrong = tape::biased(2, 250) == 1;
        for i in 0..n_init {
            let node = 1 + i;
            let wrong = if self.faults { tape::biased(2, 400) == 1 } else { i == 1 };
            let passcode = if wrong { 11111111 + i as u32 } else { GOOD };
            passcodes.insert(node, passcode);
            let start = tape::choose(40) * 25;
            let mut script = vec![CtlStep::Sleep { ms: start }];
            if wrong {
                let n = if many_wrong { 22 + tape::choose(4) } else { 1 + tape::choose(4) };
                for _ in 0..n {
                    // The attack ends in time for everything it left behind to time out before
                    // the honest probe (an attempt takes up to ~45 s, PASE establishment 60 s)
                    script.push(CtlStep::StopIfAfter { ms: 280_000 });
                    script.push(CtlStep::PaseAttempt { dev: 0, passcode });
                }
            } else if tape::biased(2, 500) == 1 {
                script.push(CtlStep::Commission { dev: 0 });
                script.push(CtlStep::ReadOnOff { dev: 0 });
            } else {
                script.push(CtlStep::PaseAttempt { dev: 0, passcode });
                script.push(CtlStep::Sleep { ms: 200 });
                script.push(CtlStep::PaseAttempt { dev: 0, passcode });
            }
            // Somebody also looks for a node which does not exist: the operational discovery is
            // taken up by the mDNS responder and never answered
            if tape::biased(3, 300) == 1 {
                script.push(CtlStep::ReadOnOff { dev: 99 });
            }
            // Abandon at an arbitrary await point?
            if self.faults && tape::biased(2, 400) == 1 {
                let at = (start as u64 + tape::choose(60) as u64) * MS + tape::choose(1000) as u64;
                cancels.push((at, node, "script", 0));
            }
            controllers.push(CtlSpec {
                fabric_id: 1 + i as u64,
                node_id: 0x1000 + i as u64,
                script,
                continue_on_error: true,
            });
        }
        // Device-side handler cancellations
        if self.faults {
            for _ in 0..tape::biased(3, 300) {
                cancels.push((tape::choose(80_000) as u64, 0, "handler", tape::choose(4) as usize));
            }
        }
        // The probe: after every timeout has run out (PASE establishment 60 s, fail-safe 60 s,
        // receive time-outs), an honest commissioner must get through
        let probe_node = 1 + n_init;
        passcodes.insert(probe_node, GOOD);
        controllers.push(CtlSpec {
            fabric_id: 99,
            node_id: 0x9999,
            script: vec![
                CtlStep::Sleep { ms: 400_000 },
                CtlStep::PaseAttempt { dev: 0, passcode: GOOD },
                // A table full of idle (unsecured) sessions which the hostile traffic left behind
                // is answered Busy once - while the device evicts an idle session - and the
                // retry gets through ("answers busy or evicts an idle session")
                CtlStep::Sleep { ms: 1_000 },
                CtlStep::PaseAttempt { dev: 0, passcode: GOOD },
                CtlStep::Sleep { ms: 130_000 },
            ],
            continue_on_error: true,
        });

        let net = if self.faults {
            UniformNet {
                latency_us: 500,
                jitter_us: 2000,
                drop_permille: [0, 50, 200][tape::choose(3) as usize],
                dup_permille: [0, 60][tape::choose(2) as usize],
                hold_permille: [0, 60][tape::choose(2) as usize],
                hold_max_ms: 500,
                mutate_unsecured_permille: [0, 0, 60, 250][tape::choose(4) as usize],
                mutate_secured_permille: [0, 0, 50][tape::choose(3) as usize],
                replay_permille: [0, 0, 60][tape::choose(3) as usize],
                corrupt_pake3_from: None,
            }
        } else {
            UniformNet {
                latency_us: 1000,
                ..Default::default()
            }
        };
        let cfg = FullCfg {
            n_devices: 1,
            controllers,
            handlers: 1 + tape::choose(4) as usize,
            net,
            sched: SchedCfg {
                nonfifo_permille: if self.faults { [0, 100, 300][tape::choose(3) as usize] } else { 0 },
                max_polls: 6_000_000,
                max_time: 3_000 * SEC,
                ..Default::default()
            },
            limit_us: 2_000 * SEC,
            kv_faults: vec![],
            crashes: vec![],
            restart_after_us: 300 * MS,
            cancels,
            calm_at_us: Some(390_000 * MS),
        };

        let mut watch = Watch {
            violations: Vec::new(),
            max_failures: 0,
            steps: 0,
            passcodes: passcodes.clone(),
            window_seen_closed_at: None,
            last_failures: (0, false),
            marker_alone_since: None,
            marker_violations: Vec::new(),
        };
        let mut before_probe: Option<DevState> = None;
        let run = drive_full_with(seed, cfg, &mut |t, states| {
            if let Some(Some(st)) = states.first() {
                watch.step(t, st);
                if t < 399_000 * MS {
                    before_probe = Some(st.clone());
                }
            }
        });
        let mut out = Outcome::default();
        common_counters(&run, &mut out);
        out.count("invariant_steps", watch.steps);
        out.count("max_pake_failures_seen", watch.max_failures as u64);

        let probe = results(&run, probe_node);
        let setup_notes: Vec<String> = run
            .log
            .iter()
            .filter_map(|e| match &e.kind {
                FullKind::Note(n) if n.contains("setup failed") => Some(format!("n{} {n}", e.node)),
                _ => None,
            })
            .collect();
        let describe = |extra: &str| {
            let mut s = format!("{extra}; {setup_notes:?};");
            for n in 1..=probe_node {
                s += &format!(
                    " n{n}(pass {}): {:?};",
                    passcodes[&n],
                    results(&run, n).iter().filter(|(nm, _, _)| *nm != "sleep").map(|(nm, r, t)| format!("{nm}:{r:x}@{}", t / 1000)).collect::<Vec<_>>()
                );
            }
            s
        };

        match self.which {
            Which::C02 => {
                for (o, d) in &watch.violations {
                    out.violate(o, d.clone());
                }
                // Wrong passcode never yields a session at the initiator either
                for n in 1..=probe_node {
                    if passcodes[&n] != GOOD && results(&run, n).iter().any(|(nm, r, _)| *nm == "pase_attempt" && *r == 0xffff) {
                        out.violate("C02-wrong-passcode-accepted", describe("an initiator with a wrong passcode completed PASE"));
                    }
                }
                // 20 failed proofs revoke the window
                let wrong_completed: usize = (1..=probe_node)
                    .filter(|n| passcodes[n] != GOOD)
                    .map(|n| results(&run, n).iter().filter(|(nm, _, _)| *nm == "pase_attempt").count())
                    .sum();
                out.count("wrong_passcode_attempts", wrong_completed as u64);
                // Failed proofs, counted on the wire: every Pake2 the device sent to an initiator
                // with a wrong passcode is a handshake that got to the proof and cannot pass it
                // (an attempt answered Busy never got that far and does not count). In the
                // fault-free family every one of them ends as a failure at the device, and 20 of
                // them must have revoked the window (the failure counter is per window).
                let wrong_failed: u64 = (1..=probe_node)
                    .filter(|n| passcodes[n] != GOOD)
                    .map(|n| run.fired.get(crate::worlds::full_drive::PAKE2_TO[n]).copied().unwrap_or(0))
                    .sum();
                out.count("wrong_passcode_proofs", wrong_failed);
                if !self.faults && wrong_failed >= 20 {
                    out.count("probe_window_revoked_after_20_failures", 1);
                    if watch.window_seen_closed_at.is_none() {
                        out.violate("C02-window-survives-20-failures", describe(&format!("{wrong_failed} failed proofs and the window was never closed")));
                    }
                }
            }
            Which::C20 => {
                // (handlers are cancelled under faults: the marker then stays until its own time-out)
                if !self.faults {
                    for (o, d) in &watch.marker_violations {
                        out.violate(o, d.clone());
                    }
                }
                if run.all_done && !matches!(run.stop, crate::kernel::StopReason::MaxPolls) {
                    // (a) after traffic stopped and every timeout ran out: nothing left behind
                    if let Some(st) = &before_probe {
                        let l = leftovers(&st.snap, "device");
                        if !l.is_empty() {
                            out.violate("C20-resources-not-released", describe(&format!("before the probe (t<399s): {l:?}")));
                        }
                    }
                    for (n, s) in run.snaps.iter().enumerate().skip(1) {
                        if let Some(s) = s {
                            let l = leftovers(s, &format!("controller n{n}"));
                            if !l.is_empty() {
                                out.violate("C20-resources-not-released", describe(&format!("at the end: {l:?}")));
                            }
                        }
                    }
                    // (c) a legitimate handshake succeeds as soon as something is idle - provided
                    // the window is (still) open
                    let window_open = before_probe.as_ref().map(|s| s.window_open).unwrap_or(false);
                    if window_open {
                        out.count("c20_probes", 1);
                        if !probe.iter().any(|(nm, r, _)| *nm == "pase_attempt" && *r == 0xffff) {
                            out.violate("C20-legitimate-handshake-refused", describe("honest PASE after settle failed although the window was open"));
                        }
                    }
                } else {
                    out.count("runs_incomplete", 1);
                }
            }
        }
        out.nontrivial = run.net.sent > 20 && (!run.fired.is_empty() || !self.faults);
        out.state_sigs.push(watch.max_failures as u64);
        out.sample = Some(json!({"initiators": (1..=probe_node).map(|n| json!({"node": n, "passcode_ok": passcodes[&n] == GOOD,
            "steps": results(&run, n).iter().filter(|(nm, _, _)| *nm != "sleep").map(|(nm, r, t)| format!("{nm}:{r:x}@{}ms", t / 1000)).collect::<Vec<_>>()})).collect::<Vec<_>>(),
            "max_pake_failures": watch.max_failures, "faults": format!("{:?}", run.fired)}));
        out
    }
}

/// C01: CASE under on-path mutation / replay / loss, with device restarts forcing new handshakes
pub struct CaseMutation {
    pub faults: bool,
}

impl Scenario for CaseMutation {
    fn property(&self) -> &'static str {
        "C01"
    }
    fn name(&self) -> &'static str {
        if self.faults {
            "case-mutation-replay-loss"
        } else {
            "case-fault-free"
        }
    }

    fn run(&self, seed: u64) -> Outcome {
        // X commissions the device cleanly; then the device is restarted several times, every
        // restart forces X through a new CASE handshake (resumption first, when the device had
        // time to persist its record) under the adversary. Y (own CA) keeps trying CASE too.
        let n_cycles = 2 + tape::choose(4) as u64;
        let mut crashes = Vec::new();
        let mut x_script = vec![CtlStep::Commission { dev: 0 }, CtlStep::ReadOnOff { dev: 0 }];
        let mut t = 3_000u64 + tape::choose(3_000) as u64;
        for _ in 0..n_cycles {
            crashes.push(t * MS);
            t += 20_000;
        }
        for _ in 0..(n_cycles * 3) {
            x_script.push(CtlStep::Sleep { ms: 6_000 });
            x_script.push(CtlStep::ReadOnOff { dev: 0 });
        }
        // Final phase, faults have stopped: the first read may still run into the stale session of
        // the last restart (transmit timeout, session expired), the following ones must be served
        x_script.push(CtlStep::SleepUntil { ms: 400_000 });
        x_script.push(CtlStep::ReadOnOff { dev: 0 });
        x_script.push(CtlStep::Sleep { ms: 2_000 });
        x_script.push(CtlStep::ReadOnOff { dev: 0 });
        x_script.push(CtlStep::Sleep { ms: 2_000 });
        x_script.push(CtlStep::ReadOnOff { dev: 0 });
        let mut y_script = vec![CtlStep::Sleep { ms: 1_000 }];
        for _ in 0..(n_cycles * 2) {
            y_script.push(CtlStep::ReadOnOff { dev: 0 });
            y_script.push(CtlStep::Sleep { ms: 7_000 });
        }
        let net = if self.faults {
            UniformNet {
                latency_us: 500,
                jitter_us: 2000,
                drop_permille: [0, 50, 150][tape::choose(3) as usize],
                dup_permille: [0, 60][tape::choose(2) as usize],
                hold_permille: [0, 60][tape::choose(2) as usize],
                hold_max_ms: 500,
                mutate_unsecured_permille: [0, 80, 300][tape::choose(3) as usize],
                mutate_secured_permille: [0, 40][tape::choose(2) as usize],
                replay_permille: [0, 80][tape::choose(2) as usize],
                corrupt_pake3_from: None,
            }
        } else {
            UniformNet {
                latency_us: 1000,
                ..Default::default()
            }
        };
        let cfg = FullCfg {
            n_devices: 1,
            controllers: vec![
                CtlSpec {
                    fabric_id: 1,
                    node_id: 0xAAAA,
                    script: x_script,
                    continue_on_error: true,
                },
                CtlSpec {
                    fabric_id: 2,
                    node_id: 0xAAAA,
                    script: y_script,
                    continue_on_error: true,
                },
            ],
            handlers: 3,
            net,
            sched: SchedCfg {
                nonfifo_permille: if self.faults { [0, 100, 300][tape::choose(3) as usize] } else { 0 },
                max_polls: 6_000_000,
                max_time: 3_000 * SEC,
                ..Default::default()
            },
            limit_us: 2_000 * SEC,
            kv_faults: vec![],
            // The adversary only starts after the (clean) commissioning: crashes are late enough
            calm_at_us: Some(340_000 * MS),
            crashes,
            restart_after_us: 500 * MS,
            cancels: vec![],
        };

        let mut violations: Vec<(String, String)> = Vec::new();
        let mut steps = 0u64;
        let mut dev_case_sessions = 0u64;
        let run = drive_full_with(seed, cfg, &mut |t, states| {
            let Some(Some(st)) = states.first() else { return };
            steps += 1;
            for s in &st.snap.sessions {
                if s.reserved {
                    continue;
                }
                if let SessionMode::Case { fab_idx, .. } = &s.mode {
                    dev_case_sessions += 1;
                    // Bound to exactly the fabric and node id of the one holder of a valid NOC
                    let fab = st.fabrics.iter().find(|f| f.fab_idx == fab_idx.get());
                    if fab.is_none() {
                        violations.push(("C01-session-for-unknown-fabric".into(), format!("t={t}: CASE session {} on fabric index {fab_idx}", s.id)));
                    }
                    if s.peer_nodeid != Some(0xAAAA) || crate::net::addr_node(&s.peer_addr) != Some(1) {
                        violations.push((
                            "C01-session-for-wrong-peer".into(),
                            format!("t={t}: device holds a CASE session with node id {:?} at {:?}; only controller X (node 1) owns a valid NOC", s.peer_nodeid, crate::net::addr_node(&s.peer_addr)),
                        ));
                    }
                }
            }
        });
        let mut out = Outcome::default();
        common_counters(&run, &mut out);
        for (o, d) in &violations {
            out.violate(o, d.clone());
        }
        if std::env::var_os("VERIF_DUMP").is_some() {
            let mut orig: BTreeMap<u64, Vec<u8>> = BTreeMap::new();
            for ev in &run.tap {
                match ev {
                    crate::net::TapEvent::Send(s) => {
                        orig.insert(s.id, s.bytes.clone());
                    }
                    crate::net::TapEvent::Deliver { id, time, node, modified: true, bytes: Some(b), .. } => {
                        let o = orig.get(id).cloned().unwrap_or_default();
                        let op = crate::wire::decode_plain(&o)
                            .and_then(|p| crate::wire::decode_proto(&o, &p, None, 0).map(|pr| (p.sess_id, pr.proto_id, pr.opcode)));
                        let diff = o.iter().zip(b.iter()).position(|(x, y)| x != y);
                        eprintln!("MUT t={time} id={id} to={node} orig_len={} new_len={} first_diff={:?} orig(sess,proto,op)={:x?}", o.len(), b.len(), diff, op);
                    }
                    _ => {}
                }
            }
        }
        // Key agreement between the two ends, on every probe during the run ...
        out.count("c01_session_pairs_compared_during_run", run.session_pairs_compared);
        for (t, ds, node, xs) in &run.key_mismatches {
            out.violate(
                "C01-ends-hold-different-keys",
                format!("t={t}: device session {ds} and session {xs} of controller node {node} are a pair by session ids and addresses but their directional keys differ"),
            );
        }
        // ... and at the end of the run
        if let (Some(Some(dev)), Some(Some(x))) = (run.snaps.first(), run.snaps.get(1)) {
            // (Expired sessions are leftovers of earlier device incarnations, whose session ids
            // start over after a restart)
            for ds in dev.sessions.iter().filter(|s| matches!(s.mode, SessionMode::Case { .. }) && !s.reserved && !s.expired) {
                for xs in x.sessions.iter().filter(|s| matches!(s.mode, SessionMode::Case { .. }) && !s.reserved && !s.expired) {
                    if ds.local_sess_id == xs.peer_sess_id && ds.peer_sess_id == xs.local_sess_id {
                        out.count("c01_session_pairs_compared", 1);
                        if ds.enc_key != xs.dec_key || ds.dec_key != xs.enc_key {
                            out.violate(
                                "C01-ends-hold-different-keys",
                                format!("device session {} and controller session {} are a pair by session ids but their directional keys differ", ds.id, xs.id),
                            );
                        }
                    }
                }
            }
        }
        let x = results(&run, 1);
        let y = results(&run, 2);
        // Y holds no NOC of the device's fabric: never served
        if y.iter().any(|(n, r, _)| *n == "read_onoff" && *r == 0xffff) {
            out.violate("C01-foreign-fabric-admitted", format!("Y={:?}", y));
        }
        // Liveness once the faults stopped: X's last read works
        if run.all_done && !matches!(run.stop, crate::kernel::StopReason::MaxPolls) {
            if x.first().map(|(n, r, _)| *n == "commission" && *r == 0xffff).unwrap_or(false) {
                let last = x.iter().rev().find(|(n, _, _)| *n == "read_onoff");
                if !matches!(last, Some((_, 0xffff, _))) {
                    out.violate(
                        "C01-valid-peer-locked-out",
                        format!("X's final read (60 s after the last fault) failed: {:?}", x.iter().filter(|(n, _, _)| *n != "sleep").map(|(n, r, t)| format!("{n}:{r:x}@{}", t / 1000)).collect::<Vec<_>>()),
                    );
                }
            }
        }
        out.count("invariant_steps", steps);
        out.count("device_case_sessions_observed", dev_case_sessions);
        out.count("device_restarts", run.device_incarnations as u64 - 1);
        out.nontrivial = run.device_incarnations > 1 && run.net.sent > 40;
        out.state_sigs.push(run.device_incarnations as u64);
        out.sample = Some(json!({"restarts": run.device_incarnations - 1, "faults": format!("{:?}", run.fired),
            "X": x.iter().filter(|(n, _, _)| *n != "sleep").map(|(n, r, t)| format!("{n}:{r:x}@{}ms", t / 1000)).collect::<Vec<_>>(),
            "Y": y.iter().filter(|(n, _, _)| *n != "sleep").map(|(n, r, t)| format!("{n}:{r:x}@{}ms", t / 1000)).collect::<Vec<_>>()}));
        out
    }
}


/// C02: a commissioner which knows the passcode, but whose confirmation value (cA in Pake3) is
/// corrupted on the way every time: each attempt is a failed proof; after twenty the window is gone
/// and no session ever existed.
pub struct Pake3Corrupted;

impl Scenario for Pake3Corrupted {
    fn property(&self) -> &'static str {
        "C02"
    }
    fn name(&self) -> &'static str {
        "confirmation-corrupted-on-path"
    }

    fn run(&self, seed: u64) -> Outcome {
        let n = 21 + tape::choose(4);
        let mut script = vec![CtlStep::Sleep { ms: tape::choose(20) * 25 }];
        for _ in 0..n {
            script.push(CtlStep::PaseAttempt { dev: 0, passcode: GOOD });
            script.push(CtlStep::Sleep { ms: tape::choose(4) * 50 });
        }
        // The device books the last failure when its handler is through with the exchange
        script.push(CtlStep::Sleep { ms: 20_000 });
        let mut passcodes = BTreeMap::new();
        passcodes.insert(1usize, GOOD);
        let cfg = FullCfg {
            n_devices: 1,
            controllers: vec![CtlSpec { fabric_id: 1, node_id: 0x1000, script, continue_on_error: true }],
            handlers: 1 + tape::choose(3) as usize,
            net: UniformNet {
                latency_us: 500 + tape::choose(4) as u64 * 500,
                corrupt_pake3_from: Some(1),
                ..Default::default()
            },
            sched: SchedCfg {
                nonfifo_permille: [0, 100, 300][tape::choose(3) as usize],
                max_polls: 6_000_000,
                max_time: 3_000 * SEC,
                ..Default::default()
            },
            limit_us: 2_000 * SEC,
            kv_faults: vec![],
            crashes: vec![],
            restart_after_us: 300 * MS,
            cancels: vec![],
            calm_at_us: None,
        };
        let mut watch = Watch {
            violations: Vec::new(),
            max_failures: 0,
            steps: 0,
            passcodes,
            window_seen_closed_at: None,
            last_failures: (0, false),
            marker_alone_since: None,
            marker_violations: Vec::new(),
        };
        let mut pase_sessions_seen = 0u64;
        let run = drive_full_with(seed, cfg, &mut |t, states| {
            if let Some(Some(st)) = states.first() {
                watch.step(t, st);
                pase_sessions_seen += st
                    .snap
                    .sessions
                    .iter()
                    .filter(|s| !s.reserved && matches!(s.mode, SessionMode::Pase { .. }))
                    .count() as u64;
            }
        });
        let mut out = Outcome::default();
        common_counters(&run, &mut out);
        for (o, d) in &watch.violations {
            out.violate(o, d.clone());
        }
        let r = results(&run, 1);
        let attempts = r.iter().filter(|(nm, _, _)| *nm == "pase_attempt").count();
        let corrupted = run.fired.get("corrupt_pake3_distinct_messages").copied().unwrap_or(0);
        let describe = || {
            format!(
                "{attempts} attempts, {corrupted} confirmations corrupted, failure counter reached {}, window closed at {:?}; results {:?}",
                watch.max_failures,
                watch.window_seen_closed_at,
                r.iter().filter(|(nm, _, _)| *nm == "pase_attempt").map(|(_, c, t)| format!("{c:x}@{}", t / 1000)).collect::<Vec<_>>()
            )
        };
        out.count("corrupted_confirmations", corrupted);
        if r.iter().any(|(nm, c, _)| *nm == "pase_attempt" && *c == 0xffff) || pase_sessions_seen > 0 {
            out.violate("C02-session-from-corrupted-confirmation", describe());
        }
        if run.all_done && corrupted >= 20 {
            out.count("probe_window_revoked_after_20_failures", 1);
            if watch.window_seen_closed_at.is_none() {
                out.violate("C02-window-survives-20-failures", describe());
            }
        }
        out.nontrivial = corrupted > 0;
        out.state_sigs.push(corrupted);
        out.sample = Some(json!({"attempts": attempts, "corrupted_confirmations": corrupted, "failure_counter_max": watch.max_failures}));
        out
    }
}

/// C02: the window is revoked by the administrator while another commissioner's handshake is
/// between two of its steps. No PASE session may come into existence after the window was closed.
pub struct WindowClosesMidHandshake {
    pub faults: bool,
}

impl Scenario for WindowClosesMidHandshake {
    fn property(&self) -> &'static str {
        "C02"
    }
    fn name(&self) -> &'static str {
        if self.faults {
            "window-closes-mid-handshake-delays"
        } else {
            "window-closes-mid-handshake"
        }
    }

    fn run(&self, seed: u64) -> Outcome {
        let latency = 500 + tape::choose(8) as u64 * 500;
        let t_b = 6_000 + tape::choose(4) * 250;
        // The revocation is a timed invoke (two round trips over CASE); the handshake three
        let delta = tape::choose(60) as i64 - 20;
        let t_r = (t_b as i64 + delta * (latency as i64) / 1000).max(5_000) as u32;
        let a_script = vec![
            CtlStep::Commission { dev: 0 },
            CtlStep::OpenWindow { dev: 0, secs: 600 },
            CtlStep::ReadOnOff { dev: 0 },
            CtlStep::SleepUntil { ms: t_r },
            CtlStep::Revoke { dev: 0 },
            CtlStep::Sleep { ms: 3_000 },
            CtlStep::ReadOnOff { dev: 0 },
        ];
        let b_script = vec![
            CtlStep::SleepUntil { ms: t_b },
            CtlStep::PaseAttempt { dev: 0, passcode: GOOD },
            CtlStep::Sleep { ms: 3_000 },
        ];
        let net = UniformNet {
            latency_us: latency,
            jitter_us: if self.faults { [0, 500, 2000][tape::choose(3) as usize] } else { 0 },
            hold_permille: if self.faults { [0, 100, 300][tape::choose(3) as usize] } else { 0 },
            hold_max_ms: 8,
            ..Default::default()
        };
        let cfg = FullCfg {
            n_devices: 1,
            controllers: vec![
                CtlSpec { fabric_id: 1, node_id: 0x1000, script: a_script, continue_on_error: true },
                CtlSpec { fabric_id: 2, node_id: 0x2000, script: b_script, continue_on_error: true },
            ],
            handlers: 3,
            net,
            sched: SchedCfg {
                nonfifo_permille: if self.faults { [0, 100, 300][tape::choose(3) as usize] } else { 0 },
                max_polls: 3_000_000,
                max_time: 1_000 * SEC,
                ..Default::default()
            },
            limit_us: 600 * SEC,
            kv_faults: vec![],
            crashes: vec![],
            restart_after_us: 300 * MS,
            cancels: vec![],
            calm_at_us: None,
        };
        // (time, window open, ids of the live PASE sessions)
        let mut series: Vec<(u64, bool, Vec<u32>)> = Vec::new();
        set_fine_probe(Some((5_000 * MS, 6_900 * MS + 80 * latency, 100)));
        let run = drive_full_with(seed, cfg, &mut |t, states| {
            if let Some(Some(st)) = states.first() {
                let pase: Vec<u32> = st
                    .snap
                    .sessions
                    .iter()
                    .filter(|s| !s.reserved && !s.expired && matches!(s.mode, SessionMode::Pase { .. }))
                    .map(|s| s.id)
                    .collect();
                if series.last().map(|(_, w, p)| (*w, p) != (st.window_open, &pase)).unwrap_or(true) {
                    series.push((t, st.window_open, pase));
                }
            }
        });
        let mut out = Outcome::default();
        common_counters(&run, &mut out);
        let a = results(&run, 1);
        let b = results(&run, 2);
        let commissioned = a.iter().any(|(n, c, _)| *n == "commission" && *c == 0xffff)
            && a.iter().any(|(n, c, _)| *n == "open_window" && *c == 0xffff)
            && a.iter().any(|(n, c, _)| *n == "revoke" && *c == 0xffff);
        let describe = || {
            format!(
                "latency {latency} us; A {:?}; B {:?}; device (t us, window open, live PASE sessions): {:?}",
                a.iter().filter(|(n, _, _)| *n != "sleep").map(|(n, c, t)| format!("{n}:{c:x}@{t}")).collect::<Vec<_>>(),
                b.iter().filter(|(n, _, _)| *n != "sleep").map(|(n, c, t)| format!("{n}:{c:x}@{t}")).collect::<Vec<_>>(),
                series
            )
        };
        if run.all_done && commissioned {
            out.count("c02_revocations_near_a_handshake", 1);
            // The instant the window was seen closed (after the commissioning's own closing and re-opening)
            let t_opened = a.iter().find(|(n, _, _)| *n == "open_window").map(|(_, _, t)| *t).unwrap_or(0);
            let reopened = series.iter().position(|(t, w, _)| *w && *t >= t_opened).or_else(|| {
                // The window was open before and stayed open: start at the last state before that
                series.iter().rposition(|(t, w, _)| *w && *t < t_opened)
            });
            if let Some(ro) = reopened {
                let mut known: std::collections::BTreeSet<u32> = std::collections::BTreeSet::new();
                let mut closed_at: Option<u64> = None;
                for (t, w, pase) in series.iter().skip(ro) {
                    if !*w && closed_at.is_none() {
                        closed_at = Some(*t);
                    }
                    for id in pase {
                        if known.insert(*id) {
                            if let Some(tc) = closed_at {
                                // A session which was not there when the window was seen closed
                                if *t > tc {
                                    out.count("c02_sessions_after_close", 1);
                                    out.violate(
                                        "C02-session-after-window-closed",
                                        format!("PASE session {id} first seen at t={t} us, the window was closed at t={tc} us; {}", describe()),
                                    );
                                }
                            }
                        }
                    }
                }
                if b.iter().any(|(n, c, _)| *n == "pase_attempt" && *c == 0xffff) {
                    out.count("c02_handshakes_completed_next_to_revocation", 1);
                } else {
                    out.count("c02_handshakes_refused_next_to_revocation", 1);
                }
            }
        } else {
            out.count("runs_incomplete", 1);
        }
        out.nontrivial = commissioned;
        out.state_sigs.push(delta as u64);
        out.sample = Some(json!({"latency_us": latency, "pase_at_ms": t_b, "revoke_at_ms": t_r,
            "B": b.iter().filter(|(n, _, _)| *n != "sleep").map(|(n, c, t)| format!("{n}:{c:x}@{t}")).collect::<Vec<_>>()}));
        out
    }
}

/// C02: the window's time runs out while another commissioner's handshake is between two of its
/// steps. No PASE session may come into existence after the expiry, and the window is closed and
/// no longer advertised one polling period later - also when a handshake was in progress.
pub struct WindowExpiresMidHandshake {
    pub faults: bool,
}

impl Scenario for WindowExpiresMidHandshake {
    fn property(&self) -> &'static str {
        "C02"
    }
    fn name(&self) -> &'static str {
        if self.faults {
            "window-expires-mid-handshake-delays"
        } else {
            "window-expires-mid-handshake"
        }
    }

    fn run(&self, seed: u64) -> Outcome {
        const T_OPEN_MS: u32 = 5_000;
        const WINDOW_S: u16 = 180;
        let latency = 500 + tape::choose(8) as u64 * 500;
        // The handshake is three round trips; it starts between 14 latencies before and 4 after the
        // expiry, once or several times in a row (the later ones find the window expired)
        let delta = tape::choose(72) as i64 - 56;
        let t_b = (T_OPEN_MS as i64 + WINDOW_S as i64 * 1000 + delta * (latency as i64) / 4000) as u32;
        let attempts = 1 + tape::choose(3);
        let a_script = vec![
            CtlStep::Commission { dev: 0 },
            CtlStep::SleepUntil { ms: T_OPEN_MS },
            CtlStep::OpenWindow { dev: 0, secs: WINDOW_S },
            CtlStep::ReadOnOff { dev: 0 },
            CtlStep::SleepUntil { ms: T_OPEN_MS + WINDOW_S as u32 * 1000 + 5_000 },
            CtlStep::ReadOnOff { dev: 0 },
        ];
        let mut b_script = vec![CtlStep::SleepUntil { ms: t_b }];
        for _ in 0..attempts {
            b_script.push(CtlStep::PaseAttempt { dev: 0, passcode: GOOD });
        }
        b_script.push(CtlStep::Sleep { ms: 3_000 });
        let net = UniformNet {
            latency_us: latency,
            jitter_us: if self.faults { [0, 500, 2000][tape::choose(3) as usize] } else { 0 },
            hold_permille: if self.faults { [0, 100, 300][tape::choose(3) as usize] } else { 0 },
            hold_max_ms: 8,
            ..Default::default()
        };
        let cfg = FullCfg {
            n_devices: 1,
            controllers: vec![
                CtlSpec { fabric_id: 1, node_id: 0x1000, script: a_script, continue_on_error: true },
                CtlSpec { fabric_id: 2, node_id: 0x2000, script: b_script, continue_on_error: true },
            ],
            handlers: 3,
            net,
            sched: SchedCfg {
                nonfifo_permille: if self.faults { [0, 100, 300][tape::choose(3) as usize] } else { 0 },
                max_polls: 3_000_000,
                max_time: 1_000 * SEC,
                ..Default::default()
            },
            limit_us: 600 * SEC,
            kv_faults: vec![],
            crashes: vec![],
            restart_after_us: 300 * MS,
            cancels: vec![],
            calm_at_us: None,
        };
        // (time of the observation before, time, window open, advertised, ids of the live PASE sessions)
        let mut series: Vec<(u64, u64, bool, bool, Vec<u32>)> = Vec::new();
        let mut last_probe = 0u64;
        let t_exp_nominal = (T_OPEN_MS as u64 + WINDOW_S as u64 * 1000) * MS;
        set_fine_probe(Some((t_exp_nominal - 200 * MS, t_exp_nominal + 1_500 * MS + 120 * latency, 200)));
        let run = drive_full_with(seed, cfg, &mut |t, states| {
            if let Some(Some(st)) = states.first() {
                let pase: Vec<u32> = st
                    .snap
                    .sessions
                    .iter()
                    // (a session is made a PASE session when the proof was accepted; it stays
                    // "reserved" until the status report was acknowledged)
                    .filter(|s| !s.expired && matches!(s.mode, SessionMode::Pase { .. }))
                    .map(|s| s.id)
                    .collect();
                if series.last().map(|(_, _, w, a, p)| (*w, *a, p) != (st.window_open, st.commissionable_advertised, &pase)).unwrap_or(true) {
                    series.push((last_probe, t, st.window_open, st.commissionable_advertised, pase));
                }
                last_probe = t;
            }
        });
        let mut out = Outcome::default();
        common_counters(&run, &mut out);
        let a = results(&run, 1);
        let b = results(&run, 2);
        // The window was opened somewhere between the start and the end of A's step
        let t_open_end = a.iter().find(|(n, c, _)| *n == "open_window" && *c == 0xffff).map(|(_, _, t)| *t);
        let commissioned = a.iter().any(|(n, c, _)| *n == "commission" && *c == 0xffff) && t_open_end.is_some();
        let describe = || {
            format!(
                "latency {latency} us; A {:?}; B {:?}; device (t us, window open, advertised, live PASE sessions): {:?}",
                a.iter().filter(|(n, _, _)| *n != "sleep").map(|(n, c, t)| format!("{n}:{c:x}@{t}")).collect::<Vec<_>>(),
                b.iter().filter(|(n, _, _)| *n != "sleep").map(|(n, c, t)| format!("{n}:{c:x}@{t}")).collect::<Vec<_>>(),
                series.iter().filter(|(_, t, ..)| *t > t_exp_nominal - 500 * MS).collect::<Vec<_>>()
            )
        };
        if let (true, Some(t_open_end)) = (run.all_done && commissioned, t_open_end) {
            out.count("c02_expiries_near_a_handshake", 1);
            // Latest possible expiry instant: the device opened the window before A's step ended
            // (logged with the resolution of the 1 ms clock tick, as is the device's own notion
            // of the opening and of "now": two ticks of allowance)
            let t_exp = t_open_end + WINDOW_S as u64 * SEC + 2 * MS;
            let mut known: std::collections::BTreeSet<u32> = std::collections::BTreeSet::new();
            for (prev_t, _t, _w, _adv, pase) in &series {
                for id in pase {
                    // Not there at the previous observation: it came into existence after `prev_t`
                    if known.insert(*id) && *prev_t > t_exp {
                        out.violate(
                            "C02-session-after-window-expired",
                            format!("PASE session {id} came into existence after t={prev_t} us, the window expired at t={t_exp} us at the latest; {}", describe()),
                        );
                    }
                }
            }
            // State at t_exp + 1.3 s (the state holds from its observation to the next one)
            let t_chk = t_exp + 1_300 * MS;
            // One polling period (1 s) and some slack after the expiry nothing is open or advertised
            if let Some((_, _, w, adv, _)) = series.iter().rev().find(|(_, t, ..)| *t <= t_chk) {
                if *w || *adv {
                    out.violate(
                        "C02-window-open-past-expiry",
                        format!("at t={t_chk} us (expiry at t={t_exp} us at the latest, polling period 1 s) window open={w} advertised={adv}; {}", describe()),
                    );
                }
            }
            if b.iter().any(|(n, c, _)| *n == "pase_attempt" && *c == 0xffff) {
                out.count("c02_handshakes_completed_next_to_expiry", 1);
            } else {
                out.count("c02_handshakes_refused_next_to_expiry", 1);
            }
        } else {
            out.count("runs_incomplete", 1);
        }
        out.nontrivial = commissioned;
        out.state_sigs.push((delta + 100) as u64);
        out.sample = Some(json!({"latency_us": latency, "pase_at_ms": t_b, "attempts": attempts,
            "B": b.iter().filter(|(n, _, _)| *n != "sleep").map(|(n, c, t)| format!("{n}:{c:x}@{t}")).collect::<Vec<_>>()}));
        out
    }
}

/// C20: table pressure. One fabric's controller keeps forgetting its sessions, so that every one of
/// its requests needs a new CASE handshake and the device's session table (16) fills up with idle
/// sessions: each further handshake must succeed by evicting an idle session. Then the other
/// fabric's administrator removes its own fabric - the session it uses is marked expired and
/// still carries the exchange of the answer - within a few milliseconds of yet another handshake
/// that needs a slot: the answer must arrive (a session with a live exchange is never evicted).
pub struct SessionTablePressure {
    pub faults: bool,
}

impl Scenario for SessionTablePressure {
    fn property(&self) -> &'static str {
        "C20"
    }
    fn name(&self) -> &'static str {
        if self.faults {
            "session-table-pressure-delays"
        } else {
            "session-table-pressure"
        }
    }

    fn run(&self, seed: u64) -> Outcome {
        let latency = 500 + tape::choose(4) as u64 * 500;
        let rounds = 15 + tape::choose(6) as usize;
        let gap = 100 + tape::choose(4) * 100;
        // B's handshake starts between 3 ms before and 6 ms after A's RemoveFabric
        let t_remove = 4_000 + 4_000 + (rounds as u32 + 2) * (gap + 40) + 2_000;
        let delta = tape::choose(36) as i64 - 12;
        let t_b = (t_remove as i64 + delta / 4) as u32;
        // A keeps using its session, so that it is never the least recently used one
        let mut a_script = vec![CtlStep::Commission { dev: 0 }, CtlStep::OpenWindow { dev: 0, secs: 900 }, CtlStep::ReadOnOff { dev: 0 }];
        let mut t = 1_000u32;
        while t + 200 < t_remove {
            a_script.push(CtlStep::SleepUntil { ms: t });
            a_script.push(CtlStep::ReadOnOff { dev: 0 });
            t += 150;
        }
        a_script.push(CtlStep::SleepUntil { ms: t_remove });
        a_script.push(CtlStep::RemoveFabric { dev: 0, fabric_index: 1 });
        let mut b_script = vec![CtlStep::Sleep { ms: 4_000 }, CtlStep::Commission { dev: 0 }, CtlStep::ReadOnOff { dev: 0 }];
        for _ in 0..rounds {
            b_script.push(CtlStep::Sleep { ms: gap });
            b_script.push(CtlStep::DropSessions);
            b_script.push(CtlStep::ReadOnOff { dev: 0 });
        }
        b_script.push(CtlStep::SleepUntil { ms: t_b });
        b_script.push(CtlStep::DropSessions);
        b_script.push(CtlStep::ReadOnOff { dev: 0 });
        for _ in 0..2 {
            b_script.push(CtlStep::Sleep { ms: 2_000 });
            b_script.push(CtlStep::DropSessions);
            b_script.push(CtlStep::ReadOnOff { dev: 0 });
        }
        let net = UniformNet {
            latency_us: latency,
            jitter_us: if self.faults { [0, 300, 1000][tape::choose(3) as usize] } else { 0 },
            hold_permille: if self.faults { [0, 100][tape::choose(2) as usize] } else { 0 },
            hold_max_ms: 4,
            ..Default::default()
        };
        let cfg = FullCfg {
            n_devices: 1,
            controllers: vec![
                CtlSpec { fabric_id: 1, node_id: 0x1000, script: a_script, continue_on_error: true },
                CtlSpec { fabric_id: 2, node_id: 0x2000, script: b_script, continue_on_error: true },
            ],
            handlers: 4,
            net,
            sched: SchedCfg {
                nonfifo_permille: if self.faults { [0, 100, 300][tape::choose(3) as usize] } else { 0 },
                max_polls: 4_000_000,
                max_time: 1_000 * SEC,
                ..Default::default()
            },
            limit_us: 600 * SEC,
            kv_faults: vec![],
            crashes: vec![],
            restart_after_us: 300 * MS,
            cancels: vec![],
            calm_at_us: None,
        };
        let mut max_sessions = 0usize;
        let mut reached_full_at: Option<u64> = None;
        // Sessions with an exchange that waits for an acknowledgement, at the previous probe:
        // (session id, peer node); and those of them which were gone at the next probe:
        // (after, until, session id, peer node)
        let mut waiting: Vec<(u32, Option<usize>)> = Vec::new();
        let mut vanished: Vec<(u64, u64, u32, Option<usize>)> = Vec::new();
        let mut prev_t = 0u64;
        set_fine_probe(Some(((t_remove as u64 - 3) * MS, (t_remove as u64 + 12) * MS + 10 * latency, 200)));
        let run = drive_full_with(seed, cfg, &mut |t, states| {
            if let Some(Some(st)) = states.first() {
                let n = st.snap.sessions.len();
                max_sessions = max_sessions.max(n);
                if n >= 16 && reached_full_at.is_none() {
                    reached_full_at = Some(t);
                }
                for (id, peer) in &waiting {
                    if !st.snap.sessions.iter().any(|s| s.id == *id) {
                        vanished.push((prev_t, t, *id, *peer));
                    }
                }
                waiting = st
                    .snap
                    .sessions
                    .iter()
                    .filter(|s| !s.reserved && s.exchanges.iter().any(|e| e.retrans.is_some()))
                    .map(|s| (s.id, crate::net::addr_node(&s.peer_addr)))
                    .collect();
                prev_t = t;
            }
        });
        let mut out = Outcome::default();
        common_counters(&run, &mut out);
        out.count("max_sessions_seen", max_sessions as u64);
        let a = results(&run, 1);
        let b = results(&run, 2);
        let describe = || {
            format!(
                "latency {latency} us, {rounds} rounds, table full at {:?} us, most sessions seen {max_sessions}; A {:?}; B {:?}",
                reached_full_at,
                a.iter().filter(|(n, _, _)| *n != "sleep").map(|(n, c, t)| format!("{n}:{c:x}@{}", t / 1000)).collect::<Vec<_>>(),
                b.iter().filter(|(n, _, _)| *n != "sleep").map(|(n, c, t)| format!("{n}:{c:x}@{}", t / 1000)).collect::<Vec<_>>()
            )
        };
        let commissioned = a.iter().any(|(n, c, _)| *n == "commission" && *c == 0xffff) && b.iter().any(|(n, c, _)| *n == "commission" && *c == 0xffff);
        if run.all_done && commissioned {
            if let Some(t_full) = reached_full_at {
                out.count("c20_runs_with_full_table", 1);
                // With a full table of idle sessions the device answers a handshake Busy and evicts an
                // idle session, or evicts at once: of two handshakes in a row at least one gets through
                let b_reads: Vec<&(&'static str, u16, u64)> = b.iter().filter(|(n, _, _)| *n == "read_onoff").collect();
                let t_rm_ms = t_remove as u64 * MS;
                let mut prev_failed = false;
                for (_, c, t) in b_reads.iter().map(|x| **x) {
                    if t > t_full && t < t_rm_ms - 600 * MS {
                        out.count("c20_handshakes_with_full_table", 1);
                        if c != 0xffff {
                            out.count("c20_handshakes_answered_busy_first", 1);
                            if prev_failed && !self.faults {
                                out.violate("C20-handshake-refused-although-sessions-idle", describe());
                            }
                            prev_failed = true;
                        } else {
                            prev_failed = false;
                        }
                    }
                }
                // A's RemoveFabric over its own session: the answer arrives although the
                // session is expired by then and another handshake needs a slot
                if let Some((_, c, _)) = a.iter().find(|(n, _, _)| *n == "remove_fabric") {
                    out.count("c20_self_removals_next_to_a_handshake", 1);
                    if *c != 0xffff && !self.faults {
                        out.violate("C20-session-with-live-exchange-evicted", describe());
                    }
                }
                // B is served at the end (its last two requests each need a new handshake)
                if !self.faults && !b_reads.iter().rev().take(2).any(|(_, c, _)| *c == 0xffff) {
                    out.violate("C20-handshake-refused-although-sessions-idle", describe());
                }
            } else {
                out.count("runs_table_never_full", 1);
            }
            // A session whose exchange was waiting for an acknowledgement is gone although
            // nothing from its peer arrived in between (an acknowledgement, a CloseSession): it was
            // evicted with a live exchange. (Giving up on the retransmissions takes seconds and is
            // not in reach of the finely probed interval.)
            {
                use crate::net::TapEvent;
                let src_of: BTreeMap<u64, usize> = run
                    .tap
                    .iter()
                    .filter_map(|e| match e {
                        TapEvent::Send(s) => Some((s.id, s.src)),
                        _ => None,
                    })
                    .collect();
                for (after, until, id, peer) in &vanished {
                    if until - after > 1_000 {
                        // (coarse probing outside of the window: not conclusive)
                        continue;
                    }
                    out.count("c20_sessions_ended_while_awaiting_an_acknowledgement", 1);
                    let heard = run.tap.iter().any(|e| match e {
                        TapEvent::Consume { id: did, time, node: 0, .. } => *time > after.saturating_sub(1) && *time <= *until && src_of.get(did).copied() == *peer,
                        _ => false,
                    });
                    if !heard {
                        out.violate(
                            "C20-session-with-live-exchange-evicted",
                            format!("device session {id} (peer node {peer:?}) had an exchange waiting for an acknowledgement at t={after} us and was gone at t={until} us although nothing from that peer arrived in between; {}", describe()),
                        );
                    }
                }
            }
            if max_sessions > 16 {
                out.violate("C20-session-table-overrun", describe());
            }
            // Nothing reserved, no exchange left at the end
            for (n, s) in run.snaps.iter().enumerate() {
                if let Some(s) = s {
                    let l = leftovers(s, if n == 0 { "device" } else { "controller" });
                    if !l.is_empty() && !self.faults {
                        out.violate("C20-resources-not-released", format!("{l:?}; {}", describe()));
                    }
                }
            }
        } else {
            out.count("runs_incomplete", 1);
        }
        out.nontrivial = commissioned && reached_full_at.is_some();
        out.state_sigs.push(((delta + 20) as u64) << 8 | rounds as u64);
        out.sample = Some(json!({"latency_us": latency, "rounds": rounds, "remove_at_ms": t_remove, "b_handshake_at_ms": t_b, "max_sessions": max_sessions,
            "A": a.iter().filter(|(n, _, _)| *n != "sleep").map(|(n, c, t)| format!("{n}:{c:x}@{}", t / 1000)).collect::<Vec<_>>()}));
        out
    }
}

pub fn defs() -> Vec<PropertyDef> {
    let storm = |which: Which, id: &'static str, rule: &'static str| PropertyDef {
        id,
        level: "exploration",
        families: vec![
            Family {
                scenario: Box::new(PaseStorm { which, faults: false }),
                weight: 1,
                fault_free: true,
            },
            Family {
                scenario: Box::new(PaseStorm { which, faults: true }),
                weight: 6,
                fault_free: false,
            },
        ],
        rule,
        assumptions: vec![
            "basic commissioning window with the test passcode/verifier (enhanced windows with generated verifiers are not generated)",
            "invalid curve points are reached only through on-path byte mutation of pA/pB, not through a dedicated generator",
            "harness, oracles trusted; sampling, not enumeration",
        ],
        real: "device: transport, session table, PASE responder (SPAKE2+), CASE responder, busy responder, fail-safe, Interaction Model; initiators: PASE initiator, Commissioner",
        stubbed: "network (with on-path mutation / replay), clock, RNG, KV back-end, mDNS (stub), attestation (test DAC)",
        budget_s: (90, 600),
    };
    let mut c02 = storm(
            Which::C02,
            "C02",
            "one run = a device with an open basic commissioning window and 2-4 initiators plus a final honest probe: right or wrong passcode (up to 25 wrong attempts in a row), full commissioning or PASE only, abandoned (task cancelled) at a tape-chosen microsecond, device handlers cancelled, on-path single-bit/byte/truncate/extend mutation and replay of handshake datagrams, loss/duplication/delay; invariants on every 100 ms device probe (PASE session only for a peer that knows the passcode, advertisement iff window open, failure counter <= 20); further families: the confirmation value of every Pake3 of a commissioner that knows the passcode is corrupted on the path (21-24 attempts: no session, window revoked after 20 failed proofs); the administrator revokes the window within a few network latencies of another commissioner's handshake (device probed every 100 us: no PASE session appears after the window was seen closed); the window's 180 s run out within a few network latencies of one to three handshakes of another commissioner (device probed every 200 us: no PASE session comes into existence after the expiry, the window is closed and no longer advertised one polling period later); distinct = distinct trace hash; non-trivial = > 20 datagrams and a fault fired",
        );
    c02.families.push(Family { scenario: Box::new(Pake3Corrupted), weight: 1, fault_free: false });
    c02.families.push(Family { scenario: Box::new(WindowClosesMidHandshake { faults: false }), weight: 2, fault_free: false });
    c02.families.push(Family { scenario: Box::new(WindowClosesMidHandshake { faults: true }), weight: 2, fault_free: false });
    c02.families.push(Family { scenario: Box::new(WindowExpiresMidHandshake { faults: false }), weight: 2, fault_free: false });
    c02.families.push(Family { scenario: Box::new(WindowExpiresMidHandshake { faults: true }), weight: 2, fault_free: false });
    let mut c20 = storm(
            Which::C20,
            "C20",
            "same runs as C02; oracle after all traffic stopped and 400 s of simulated time (PASE establishment timeout, fail-safe, receive time-outs) elapsed: no reserved session, no exchange, no PASE-in-progress marker, RX/TX slots empty, mDNS rendezvous slots idle on the device and on every (cancelled) initiator; then an honest PASE must succeed while the window is open",
        );
    c20.families.push(Family { scenario: Box::new(SessionTablePressure { faults: false }), weight: 2, fault_free: true });
    c20.families.push(Family { scenario: Box::new(SessionTablePressure { faults: true }), weight: 1, fault_free: false });
    vec![
        c02,
        c20,
        PropertyDef {
            id: "C01",
            level: "exploration",
            families: vec![
                Family {
                    scenario: Box::new(CaseMutation { faults: false }),
                    weight: 1,
                    fault_free: true,
                },
                Family {
                    scenario: Box::new(CaseMutation { faults: true }),
                    weight: 6,
                    fault_free: false,
                },
                Family {
                    scenario: Box::new(crate::props::c07::RemoveFabric { faults: false, c01: true }),
                    weight: 1,
                    fault_free: true,
                },
            ],
            rule: "one run = controller X (valid NOC) commissions the device cleanly; the device is then crashed and restarted 2-5 times, each restart forcing X through a new CASE handshake (Sigma1 with resumption first; full Sigma1/2/3 after fallback) while the adversary mutates (bit, byte, truncate, extend), replays/substitutes, drops, duplicates and delays the handshake datagrams; controller Y (own CA, same node id) keeps attempting CASE; invariants on every device probe (CASE sessions only for X's node id/address and an existing fabric), key agreement of session pairs at the end, Y never served, X served again 60 s after the last fault; family expelled-peer-after-index-reuse: three controllers, the second one's fabric is removed by the first (a cross-fabric RemoveFabric) while it is reading, a third fabric then takes the freed index, and the expelled controller (which holds a resumption record and its old credentials) must not get a session any more; distinct = distinct trace hash; non-trivial = at least one restart and > 40 datagrams",
            assumptions: vec![
                "certificate-chain invalidity classes (signature, issuer link, validity window, CA flags, key usage, path length) are not generated: only a foreign-CA identity and on-path mutation are (the chain predicate itself is C19, a pure function)",
                "harness, oracles trusted; sampling, not enumeration",
            ],
            real: "CASE initiator and responder incl. resumption and its persisted cache, certificate validation, fabric table, session table, transport",
            stubbed: "network (with on-path mutation / replay), clock, RNG, KV back-end, mDNS (stub)",
            budget_s: (90, 600),
        },
    ]
}
