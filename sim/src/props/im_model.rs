//! Reference model of the Interaction Model's observable behaviour, written against the Matter
//! rules over the generator's ground truth (composition, ACL, requester), plus strict parsers for
//! the messages the device emits. Nothing in here calls into rs-matter's `im` / `expand` code.

use std::collections::BTreeMap;

use rs_matter::dm::Endpoint;
use rs_matter::root_endpoint;

use crate::tlvx::{self, Tag, Val};
use crate::worlds::im::*;
use crate::worlds::im_drive::ImCfg;
use crate::worlds::mrp::Kind;

pub const ST_SUCCESS: u8 = 0x00;
pub const ST_UNSUPPORTED_ACCESS: u8 = 0x7e;
pub const ST_UNSUPPORTED_ENDPOINT: u8 = 0x7f;
pub const ST_INVALID_ACTION: u8 = 0x80;
pub const ST_UNSUPPORTED_COMMAND: u8 = 0x81;
pub const ST_UNSUPPORTED_ATTRIBUTE: u8 = 0x86;
pub const ST_UNSUPPORTED_WRITE: u8 = 0x88;
pub const ST_UNSUPPORTED_READ: u8 = 0x8f;
pub const ST_TIMEOUT: u8 = 0x94;
pub const ST_UNSUPPORTED_CLUSTER: u8 = 0xc3;
pub const ST_NEEDS_TIMED: u8 = 0xc6;
pub const ST_TIMED_MISMATCH: u8 = 0xc9;

pub const A_READ: u16 = 0x0010;
pub const A_WRITE: u16 = 0x0020;
pub const A_FAB_SCOPED: u16 = 0x0040;
pub const A_TIMED_ONLY: u16 = 0x0100;

#[derive(Clone, Debug)]
pub struct Requester {
    pub fab: u8,
    pub node_id: u64,
    pub pase: bool,
}

pub fn requester(cfg: &ImCfg, pair: usize) -> Requester {
    let p = &cfg.pairs[pair];
    match p.kind {
        Kind::Pase => Requester { fab: 0, node_id: 0, pase: true },
        Kind::Case => Requester { fab: p.dev_fab, node_id: p.ctl_nodeid, pase: false },
    }
}

/// Metadata of the real root endpoint (data only)
#[derive(Clone, Debug, Default)]
pub struct RootMeta {
    /// cluster id -> (attribute id, access bits)
    pub clusters: Vec<(u32, Vec<(u32, u16)>)>,
}

pub fn root_meta() -> RootMeta {
    let ep: Endpoint<'_> = root_endpoint!(eth);
    let mut m = RootMeta::default();
    for c in ep.clusters {
        let attrs = c
            .attributes
            .iter()
            .filter(|a| (c.with_attrs)(a, c.revision, c.feature_map))
            .map(|a| (a.id, a.access.bits()))
            .collect();
        m.clusters.push((c.id, attrs));
    }
    m
}

const GLOBAL_ATTRS: [u32; 6] = [0xfff8, 0xfff9, 0xfffa, 0xfffb, 0xfffc, 0xfffd];

/// The state the model evaluates a request against
pub struct World<'a> {
    pub comp: &'a Composition,
    pub enabled: Vec<bool>,
    pub acl: Vec<AclSpec>,
    pub root: Option<&'a RootMeta>,
}

impl<'a> World<'a> {
    pub fn initial(cfg: &'a ImCfg, root: &'a RootMeta) -> Self {
        World {
            comp: &cfg.comp,
            enabled: vec![true; cfg.comp.endpoints.len()],
            acl: cfg.comp.acl.clone(),
            root: if cfg.comp.with_root { Some(root) } else { None },
        }
    }

    pub fn remove_acl(&mut self, fab: u8, index: usize) {
        let mut k = 0;
        let mut hit = None;
        for (i, a) in self.acl.iter().enumerate() {
            if a.fab == fab {
                if k == index {
                    hit = Some(i);
                    break;
                }
                k += 1;
            }
        }
        if let Some(i) = hit {
            self.acl.remove(i);
        }
    }

    /// Privilege bits (V=1, O=2, M=4, A=8) granted to `req` on (ep, cl)
    pub fn granted(&self, req: &Requester, ep: u16, cl: u32) -> u16 {
        if req.pase {
            return 0x0f;
        }
        let mut g = 0;
        for a in &self.acl {
            if a.fab != req.fab {
                continue;
            }
            if !a.subjects.is_empty() && !a.subjects.contains(&req.node_id) {
                continue;
            }
            if !a.targets.is_empty()
                && !a.targets.iter().any(|(te, tc)| {
                    te.map(|x| x == ep).unwrap_or(true) && tc.map(|x| x == cl).unwrap_or(true)
                })
            {
                continue;
            }
            g |= match a.privilege {
                1 => 0x01,
                3 => 0x03,
                4 => 0x07,
                _ => 0x0f,
            };
        }
        g
    }

    /// All (endpoint, cluster, [(leaf, access)]) present on the node
    pub fn attr_tree(&self) -> Vec<(u16, u32, Vec<(u32, u16)>)> {
        let mut v = Vec::new();
        if let Some(r) = self.root {
            for (cl, attrs) in &r.clusters {
                v.push((0, *cl, attrs.clone()));
            }
        }
        for (i, e) in self.comp.endpoints.iter().enumerate() {
            if !self.enabled[i] {
                continue;
            }
            for c in &e.clusters {
                let mut attrs: Vec<(u32, u16)> = c.attrs.iter().map(|a| (a.id, a.access)).collect();
                attrs.extend(GLOBAL_ATTRS.iter().map(|g| (*g, ACC_RV)));
                v.push((e.id, c.id, attrs));
            }
        }
        v
    }

    pub fn has_endpoint(&self, ep: u16) -> bool {
        (ep == 0 && self.root.is_some())
            || self
                .comp
                .endpoints
                .iter()
                .enumerate()
                .any(|(i, e)| e.id == ep && self.enabled[i])
    }
}

pub fn permitted(access: u16, write: bool, granted: u16) -> bool {
    let required = access & if write { 0x0e } else { 0x0f };
    required != 0 && (granted & required) != 0
}

#[derive(Clone, Debug, PartialEq, Eq)]
pub enum Exp {
    Data { ep: u16, cl: u32, attr: u32 },
    /// A status for the request path, any of the listed codes
    Status { path: PathSpec, any_of: Vec<u8> },
}

/// What a read / subscribe priming of `paths` must return
pub fn expect_read(w: &World<'_>, req: &Requester, paths: &[PathSpec], dv_match: &dyn Fn(u16, u32) -> bool) -> Vec<Exp> {
    let tree = w.attr_tree();
    let mut out = Vec::new();
    for p in paths {
        if p.is_wildcard() {
            for (ep, cl, attrs) in &tree {
                if dv_match(*ep, *cl) {
                    continue;
                }
                let g = w.granted(req, *ep, *cl);
                for (a, acc) in attrs {
                    if p.matches(*ep, *cl, *a) && acc & A_READ != 0 && permitted(*acc, false, g) {
                        out.push(Exp::Data { ep: *ep, cl: *cl, attr: *a });
                    }
                }
            }
        } else {
            let (ep, cl, a) = (p.ep.unwrap(), p.cl.unwrap(), p.leaf.unwrap());
            let g = w.granted(req, ep, cl);
            let st = |codes: &[u8]| Exp::Status { path: p.clone(), any_of: codes.to_vec() };
            if !w.has_endpoint(ep) {
                out.push(st(&[ST_UNSUPPORTED_ENDPOINT, ST_UNSUPPORTED_ACCESS]));
                continue;
            }
            let Some((_, _, attrs)) = tree.iter().find(|(e, c, _)| *e == ep && *c == cl) else {
                out.push(st(&[ST_UNSUPPORTED_CLUSTER, ST_UNSUPPORTED_ACCESS]));
                continue;
            };
            let Some((_, acc)) = attrs.iter().find(|(x, _)| *x == a) else {
                out.push(st(&[ST_UNSUPPORTED_ATTRIBUTE, ST_UNSUPPORTED_ACCESS]));
                continue;
            };
            if acc & A_READ == 0 {
                out.push(st(&[ST_UNSUPPORTED_READ, ST_UNSUPPORTED_ACCESS]));
            } else if !permitted(*acc, false, g) {
                out.push(st(&[ST_UNSUPPORTED_ACCESS]));
            } else if !dv_match(ep, cl) {
                out.push(Exp::Data { ep, cl, attr: a });
            }
        }
    }
    out
}

/// Outcome the model expects for one write / invoke item
#[derive(Clone, Debug, PartialEq, Eq)]
pub enum ActExp {
    /// The handler is called exactly once per listed endpoint; statuses success
    Effect { eps: Vec<u16> },
    /// No effect; a status out of `any_of` (empty: silently omitted)
    Refused { any_of: Vec<u8> },
}

pub fn expect_action(
    w: &World<'_>,
    req: &Requester,
    p: &PathSpec,
    command: bool,
    timed: bool,
) -> ActExp {
    let refused = |codes: &[u8]| ActExp::Refused { any_of: codes.to_vec() };
    let (Some(cl), Some(leaf)) = (p.cl, p.leaf) else {
        return refused(&[ST_UNSUPPORTED_CLUSTER, ST_UNSUPPORTED_ATTRIBUTE, ST_UNSUPPORTED_COMMAND, ST_INVALID_ACTION]);
    };
    let leaf_missing = if command { ST_UNSUPPORTED_COMMAND } else { ST_UNSUPPORTED_ATTRIBUTE };
    // (endpoint, access of the leaf if present)
    let mut cands: Vec<(u16, Option<Option<u16>>)> = Vec::new();
    let lookup = |ep: u16| -> Option<Option<u16>> {
        // None: no such cluster; Some(None): cluster but no such leaf
        if ep == 0 {
            // Actions on the real root endpoint are not generated
            return None;
        }
        let c = w
            .comp
            .endpoints
            .iter()
            .enumerate()
            .find(|(i, e)| e.id == ep && w.enabled[*i])
            .and_then(|(_, e)| e.clusters.iter().find(|c| c.id == cl))?;
        Some(if command {
            c.cmds.iter().find(|k| k.id == leaf).map(|k| k.access)
        } else {
            c.attrs
                .iter()
                .find(|k| k.id == leaf)
                .map(|k| k.access)
                .or(if GLOBAL_ATTRS.contains(&leaf) { Some(ACC_RV) } else { None })
        })
    };
    match p.ep {
        Some(ep) => {
            if !w.has_endpoint(ep) {
                return refused(&[ST_UNSUPPORTED_ENDPOINT, ST_UNSUPPORTED_ACCESS]);
            }
            cands.push((ep, lookup(ep)));
        }
        None => {
            for (i, e) in w.comp.endpoints.iter().enumerate() {
                if w.enabled[i] {
                    cands.push((e.id, lookup(e.id)));
                }
            }
        }
    }
    let wildcard = p.ep.is_none();
    let mut eps = Vec::new();
    for (ep, acc) in cands {
        let verdict: Result<(), Vec<u8>> = match acc {
            None => Err(vec![ST_UNSUPPORTED_CLUSTER, ST_UNSUPPORTED_ACCESS]),
            Some(None) => Err(vec![leaf_missing, ST_UNSUPPORTED_ACCESS]),
            Some(Some(acc)) => {
                let g = w.granted(req, ep, cl);
                if acc & A_TIMED_ONLY != 0 && !timed {
                    Err(vec![ST_NEEDS_TIMED, ST_UNSUPPORTED_ACCESS])
                } else if !command && acc & A_WRITE == 0 {
                    Err(vec![ST_UNSUPPORTED_WRITE, ST_UNSUPPORTED_ACCESS])
                } else if command && acc & A_FAB_SCOPED != 0 && req.fab == 0 {
                    Err(vec![ST_UNSUPPORTED_ACCESS])
                } else if !permitted(acc, true, g) {
                    Err(vec![ST_UNSUPPORTED_ACCESS])
                } else {
                    Ok(())
                }
            }
        };
        match verdict {
            Ok(()) => eps.push(ep),
            Err(codes) => {
                if !wildcard {
                    return ActExp::Refused { any_of: codes };
                }
            }
        }
    }
    if eps.is_empty() {
        // A wildcard which selects nothing is silently empty
        ActExp::Refused { any_of: vec![] }
    } else {
        ActExp::Effect { eps }
    }
}

// ---------------------------------------------------------------------------------------------
// Parsers (strict)
// ---------------------------------------------------------------------------------------------

#[derive(Clone, Debug, PartialEq)]
pub enum RItem {
    Data {
        ep: u16,
        cl: u32,
        attr: u32,
        /// `None`: no list index; `Some(None)`: null (append); `Some(Some(i))`
        list_index: Option<Option<u16>>,
        dataver: u32,
        val: Val,
    },
    Status { ep: Option<u16>, cl: Option<u32>, attr: Option<u32>, status: u8 },
    EvData { ep: u16, cl: u32, event: u32, number: u64, prio: u8, data: Option<Val> },
    EvStatus { ep: Option<u16>, cl: Option<u32>, event: Option<u32>, status: u8 },
}

#[derive(Clone, Debug, Default)]
pub struct Chunk {
    pub sub_id: Option<u32>,
    pub items: Vec<RItem>,
    pub more: bool,
    pub suppress: bool,
    pub has_attr_reports: bool,
    pub has_event_reports: bool,
}

fn only_tags(v: &Val, allowed: &[u8], what: &str) -> Result<(), String> {
    for (t, _) in v.members() {
        match t {
            Tag::Ctx(n) if allowed.contains(n) => {}
            other => return Err(format!("{what}: unexpected tag {:?}", other)),
        }
    }
    // No tag twice
    let mut seen = Vec::new();
    for (t, _) in v.members() {
        if seen.contains(t) {
            return Err(format!("{what}: tag {:?} twice", t));
        }
        seen.push(t.clone());
    }
    Ok(())
}

fn need_struct<'a>(v: &'a Val, what: &str) -> Result<&'a Val, String> {
    match v {
        Val::Struct(_) => Ok(v),
        _ => Err(format!("{what}: not a structure: {:?}", v)),
    }
}

fn attr_path(v: &Val) -> Result<(Option<u16>, Option<u32>, Option<u32>, Option<Option<u16>>), String> {
    if !matches!(v, Val::List(_)) {
        return Err(format!("attribute path is not a list: {:?}", v));
    }
    only_tags(v, &[0, 1, 2, 3, 4, 5], "attribute path")?;
    let num = |n: u8| -> Result<Option<u64>, String> {
        match v.ctx(n) {
            None => Ok(None),
            Some(x) => x.uint().map(Some).ok_or_else(|| format!("attribute path field {n} not an unsigned integer")),
        }
    };
    let li = match v.ctx(5) {
        None => None,
        Some(Val::Null) => Some(None),
        Some(x) => Some(Some(x.uint().ok_or("list index not an integer")? as u16)),
    };
    Ok((
        num(2)?.map(|x| x as u16),
        num(3)?.map(|x| x as u32),
        num(4)?.map(|x| x as u32),
        li,
    ))
}

fn status_ib(v: &Val) -> Result<u8, String> {
    need_struct(v, "StatusIB")?;
    only_tags(v, &[0, 1], "StatusIB")?;
    v.ctx(0)
        .and_then(|x| x.uint())
        .map(|x| x as u8)
        .ok_or_else(|| "StatusIB without status".to_string())
}

pub fn parse_report(payload: &[u8]) -> Result<Chunk, String> {
    let (tag, v) = tlvx::decode(payload)?;
    if tag != Tag::Anon {
        return Err("top-level element is tagged".into());
    }
    need_struct(&v, "ReportData")?;
    only_tags(&v, &[0, 1, 2, 3, 4, 0xff], "ReportData")?;
    let mut c = Chunk::default();
    if let Some(s) = v.ctx(0) {
        c.sub_id = Some(s.uint().ok_or("subscription id not an integer")? as u32);
    }
    if v.ctx(0xff).and_then(|x| x.uint()).is_none() {
        return Err("ReportData without InteractionModelRevision".into());
    }
    if let Some(x) = v.ctx(3) {
        c.more = x.boolean().ok_or("MoreChunkedMessages not a boolean")?;
    }
    if let Some(x) = v.ctx(4) {
        c.suppress = x.boolean().ok_or("SuppressResponse not a boolean")?;
    }
    if let Some(reports) = v.ctx(1) {
        c.has_attr_reports = true;
        if !matches!(reports, Val::Array(_)) {
            return Err("AttributeReports is not an array".into());
        }
        for (_, r) in reports.members() {
            need_struct(r, "AttributeReportIB")?;
            only_tags(r, &[0, 1], "AttributeReportIB")?;
            match (r.ctx(0), r.ctx(1)) {
                (Some(s), None) => {
                    need_struct(s, "AttributeStatusIB")?;
                    only_tags(s, &[0, 1], "AttributeStatusIB")?;
                    let (ep, cl, attr, _) = attr_path(s.ctx(0).ok_or("AttributeStatusIB without path")?)?;
                    let status = status_ib(s.ctx(1).ok_or("AttributeStatusIB without status")?)?;
                    c.items.push(RItem::Status { ep, cl, attr, status });
                }
                (None, Some(d)) => {
                    need_struct(d, "AttributeDataIB")?;
                    only_tags(d, &[0, 1, 2], "AttributeDataIB")?;
                    let dataver = d
                        .ctx(0)
                        .and_then(|x| x.uint())
                        .ok_or("AttributeDataIB without data version")? as u32;
                    let (ep, cl, attr, list_index) = attr_path(d.ctx(1).ok_or("AttributeDataIB without path")?)?;
                    let (Some(ep), Some(cl), Some(attr)) = (ep, cl, attr) else {
                        return Err("AttributeDataIB with a wildcard path".into());
                    };
                    let val = d.ctx(2).ok_or("AttributeDataIB without data")?.clone();
                    c.items.push(RItem::Data { ep, cl, attr, list_index, dataver, val });
                }
                _ => return Err("AttributeReportIB must hold exactly one of status / data".into()),
            }
        }
    }
    if let Some(reports) = v.ctx(2) {
        c.has_event_reports = true;
        if !matches!(reports, Val::Array(_)) {
            return Err("EventReports is not an array".into());
        }
        for (_, r) in reports.members() {
            need_struct(r, "EventReportIB")?;
            only_tags(r, &[0, 1], "EventReportIB")?;
            let ev_path = |p: &Val| -> Result<(Option<u16>, Option<u32>, Option<u32>), String> {
                if !matches!(p, Val::List(_)) {
                    return Err("event path is not a list".into());
                }
                only_tags(p, &[0, 1, 2, 3, 4], "event path")?;
                Ok((
                    p.ctx(1).and_then(|x| x.uint()).map(|x| x as u16),
                    p.ctx(2).and_then(|x| x.uint()).map(|x| x as u32),
                    p.ctx(3).and_then(|x| x.uint()).map(|x| x as u32),
                ))
            };
            match (r.ctx(0), r.ctx(1)) {
                (Some(s), None) => {
                    need_struct(s, "EventStatusIB")?;
                    let (ep, cl, event) = ev_path(s.ctx(0).ok_or("EventStatusIB without path")?)?;
                    let status = status_ib(s.ctx(1).ok_or("EventStatusIB without status")?)?;
                    c.items.push(RItem::EvStatus { ep, cl, event, status });
                }
                (None, Some(d)) => {
                    need_struct(d, "EventDataIB")?;
                    only_tags(d, &[0, 1, 2, 3, 4, 5, 6, 7], "EventDataIB")?;
                    let (ep, cl, event) = ev_path(d.ctx(0).ok_or("EventDataIB without path")?)?;
                    let (Some(ep), Some(cl), Some(event)) = (ep, cl, event) else {
                        return Err("EventDataIB with a wildcard path".into());
                    };
                    let number = d.ctx(1).and_then(|x| x.uint()).ok_or("EventDataIB without number")?;
                    let prio = d.ctx(2).and_then(|x| x.uint()).ok_or("EventDataIB without priority")? as u8;
                    let stamps = [3u8, 4, 5, 6].iter().filter(|t| d.ctx(**t).is_some()).count();
                    if stamps != 1 {
                        return Err(format!("EventDataIB with {stamps} timestamps"));
                    }
                    c.items.push(RItem::EvData { ep, cl, event, number, prio, data: d.ctx(7).cloned() });
                }
                _ => return Err("EventReportIB must hold exactly one of status / data".into()),
            }
        }
    }
    Ok(c)
}

#[derive(Clone, Debug, Default)]
pub struct Reassembled {
    /// (path, value, data version) in order of appearance; a path appears once per selection
    pub data: Vec<((u16, u32, u32), Val, u32)>,
    pub statuses: Vec<(Option<u16>, Option<u32>, Option<u32>, u8)>,
    /// (path, number, data)
    pub events: Vec<((u16, u32, u32), u64, Option<Val>)>,
    pub ev_statuses: Vec<(Option<u16>, Option<u32>, Option<u32>, u8)>,
    pub errors: Vec<String>,
}

/// Put the chunks of one answer back together
pub fn reassemble(chunks: &[Chunk]) -> Reassembled {
    let mut r = Reassembled::default();
    // Index into `data` of the list currently being streamed
    let mut open_list: Option<usize> = None;
    for c in chunks {
        for it in &c.items {
            match it {
                RItem::Data { ep, cl, attr, list_index, dataver, val } => match list_index {
                    None => {
                        r.data.push(((*ep, *cl, *attr), val.clone(), *dataver));
                        open_list = if matches!(val, Val::Array(_)) { Some(r.data.len() - 1) } else { None };
                    }
                    Some(None) => match open_list {
                        Some(i) if r.data[i].0 == (*ep, *cl, *attr) => {
                            if let Val::Array(m) = &mut r.data[i].1 {
                                m.push((Tag::Anon, val.clone()));
                            }
                        }
                        _ => r.errors.push(format!(
                            "list item for {:?} which is not the list being streamed",
                            (ep, cl, attr)
                        )),
                    },
                    Some(Some(i)) => r
                        .errors
                        .push(format!("report addresses list item {} of {:?} by index", i, (ep, cl, attr))),
                },
                RItem::Status { ep, cl, attr, status } => {
                    open_list = None;
                    r.statuses.push((*ep, *cl, *attr, *status));
                }
                RItem::EvData { ep, cl, event, number, data, .. } => {
                    r.events.push(((*ep, *cl, *event), *number, data.clone()));
                }
                RItem::EvStatus { ep, cl, event, status } => r.ev_statuses.push((*ep, *cl, *event, *status)),
            }
        }
    }
    r
}

/// The value the device holds for a synthetic attribute, as a decoded TLV value
pub fn expected_val(kind: &AKind, ep: u16, cl: u32, attr: u32, version: u32) -> Val {
    match kind {
        AKind::U32 => Val::UInt(version as u64),
        AKind::Octets(len) => Val::Bytes(octets_value(ep, cl, attr, version, 0, *len)),
        AKind::List { items, item_len } => Val::Array(
            (0..*items)
                .map(|i| (Tag::Anon, Val::Bytes(octets_value(ep, cl, attr, version, i as u16, *item_len))))
                .collect(),
        ),
    }
}

/// The version carried by a reported value of a synthetic attribute (`None`: not recognisable)
pub fn version_of(kind: &AKind, val: &Val) -> Option<u32> {
    match (kind, val) {
        (AKind::U32, v) => v.uint().map(|x| x as u32),
        (AKind::Octets(len), Val::Bytes(b)) if *len >= 4 && b.len() >= 4 => {
            Some(u32::from_le_bytes([b[0], b[1], b[2], b[3]]))
        }
        (AKind::List { .. }, Val::Array(m)) => m.first().and_then(|(_, v)| match v {
            Val::Bytes(b) if b.len() >= 4 => Some(u32::from_le_bytes([b[0], b[1], b[2], b[3]])),
            _ => None,
        }),
        _ => None,
    }
}

/// WriteResponse: (path, status) list
pub fn parse_write_response(payload: &[u8]) -> Result<Vec<((Option<u16>, Option<u32>, Option<u32>), u8)>, String> {
    let (_, v) = tlvx::decode(payload)?;
    need_struct(&v, "WriteResponse")?;
    only_tags(&v, &[0, 0xff], "WriteResponse")?;
    let mut out = Vec::new();
    let Some(list) = v.ctx(0) else {
        return Err("WriteResponse without WriteResponses".into());
    };
    for (_, s) in list.members() {
        need_struct(s, "AttributeStatusIB")?;
        let (ep, cl, attr, _) = attr_path(s.ctx(0).ok_or("AttributeStatusIB without path")?)?;
        let status = status_ib(s.ctx(1).ok_or("AttributeStatusIB without status")?)?;
        out.push(((ep, cl, attr), status));
    }
    Ok(out)
}

#[derive(Clone, Debug)]
pub enum InvItem {
    /// (endpoint, cluster, response command id, argument echoed)
    Command(u16, u32, u32, Option<u32>),
    Status(Option<u16>, Option<u32>, Option<u32>, u8),
}

pub fn parse_invoke_response(payload: &[u8]) -> Result<Vec<InvItem>, String> {
    let (_, v) = tlvx::decode(payload)?;
    need_struct(&v, "InvokeResponse")?;
    only_tags(&v, &[0, 1, 2, 0xff], "InvokeResponse")?;
    let mut out = Vec::new();
    let Some(list) = v.ctx(1) else {
        return Err("InvokeResponse without InvokeResponses".into());
    };
    let cmd_path = |p: &Val| -> (Option<u16>, Option<u32>, Option<u32>) {
        (
            p.ctx(0).and_then(|x| x.uint()).map(|x| x as u16),
            p.ctx(1).and_then(|x| x.uint()).map(|x| x as u32),
            p.ctx(2).and_then(|x| x.uint()).map(|x| x as u32),
        )
    };
    for (_, r) in list.members() {
        need_struct(r, "InvokeResponseIB")?;
        match (r.ctx(0), r.ctx(1)) {
            (Some(c), None) => {
                let (ep, cl, cmd) = cmd_path(c.ctx(0).ok_or("CommandDataIB without path")?);
                let arg = c.ctx(1).and_then(|f| f.ctx(0)).and_then(|x| x.uint()).map(|x| x as u32);
                out.push(InvItem::Command(
                    ep.ok_or("command path without endpoint")?,
                    cl.ok_or("command path without cluster")?,
                    cmd.ok_or("command path without command")?,
                    arg,
                ));
            }
            (None, Some(s)) => {
                let (ep, cl, cmd) = cmd_path(s.ctx(0).ok_or("CommandStatusIB without path")?);
                let status = status_ib(s.ctx(1).ok_or("CommandStatusIB without status")?)?;
                out.push(InvItem::Status(ep, cl, cmd, status));
            }
            _ => return Err("InvokeResponseIB must hold exactly one of command / status".into()),
        }
    }
    Ok(out)
}

pub fn parse_status(payload: &[u8]) -> Result<u8, String> {
    let (_, v) = tlvx::decode(payload)?;
    need_struct(&v, "StatusResponse")?;
    v.ctx(0)
        .and_then(|x| x.uint())
        .map(|x| x as u8)
        .ok_or_else(|| "StatusResponse without status".to_string())
}

pub fn parse_subscribe_response(payload: &[u8]) -> Result<(u32, u16), String> {
    let (_, v) = tlvx::decode(payload)?;
    need_struct(&v, "SubscribeResponse")?;
    only_tags(&v, &[0, 2, 0xff], "SubscribeResponse")?;
    Ok((
        v.ctx(0).and_then(|x| x.uint()).ok_or("SubscribeResponse without id")? as u32,
        v.ctx(2).and_then(|x| x.uint()).ok_or("SubscribeResponse without max interval")? as u16,
    ))
}

/// Multiset comparison helper: count per key
pub fn counts<K: Ord + Clone>(it: impl Iterator<Item = K>) -> BTreeMap<K, u32> {
    let mut m = BTreeMap::new();
    for k in it {
        *m.entry(k).or_insert(0) += 1;
    }
    m
}
