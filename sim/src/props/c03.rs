//! C03: a secured message is accepted only if authentic for that session and direction.
//!
//! The mrp world (real stacks with planted PASE / CASE sessions between two or three nodes,
//! generic exchange traffic with recognisable payloads) under an on-path adversary which, next to
//! the genuine datagram, delivers crafted variants of it: bit flips in header, payload and tag,
//! truncation, extension, header fields transplanted from other live datagrams, header of one
//! datagram on the body of another, reflection to the sender (opposite direction), redirection to a
//! third node, forged source address.

use std::cell::RefCell;
use std::collections::{BTreeMap, BTreeSet};
use std::rc::Rc;

use rs_matter::verif::{Event, RxVerdict};

use crate::kernel::{SchedCfg, MS, SEC};
use crate::net::{self, Fate, Policy, TapEvent, TapSend};
use crate::props::mrp_props::{common_counters, sample_of};
use crate::props::{Family, PropertyDef};
use crate::runner::{Outcome, Scenario};
use crate::tape;
use crate::wire;
use crate::worlds::mrp::*;
use crate::worlds::mrp_drive::*;

pub struct Corruptor {
    n_nodes: usize,
    mutate_permille: u32,
    drop_permille: u32,
    latency_us: u64,
    /// Recent genuine secured datagrams: (src, dst node, bytes)
    seen: Vec<(usize, usize, Vec<u8>)>,
    fired: Rc<RefCell<BTreeMap<&'static str, u64>>>,
}

impl Corruptor {
    fn fire(&self, k: &'static str) {
        *self.fired.borrow_mut().entry(k).or_default() += 1;
    }
}

impl Policy for Corruptor {
    fn decide(&mut self, rec: &TapSend) -> Vec<Fate> {
        let mut fates = Vec::new();
        // (multicast: no single destination node; only byte-level forgeries apply)
        let dst_opt = net::addr_node(&rec.dst);
        let multicast = dst_opt.is_none();
        let dst = dst_opt.unwrap_or(usize::MAX);
        if tape::chance(self.drop_permille) {
            self.fire("drop");
        } else {
            fates.push(Fate::deliver(self.latency_us));
        }
        let secured = wire::decode_plain(&rec.bytes).map(|p| p.is_secured()).unwrap_or(false);
        if secured && tape::chance(self.mutate_permille) {
            let len = rec.bytes.len();
            let mut bytes = rec.bytes.clone();
            let mut fate = Fate::deliver(self.latency_us + tape::range(0, 40) * 100);
            // Sometimes the forgery overtakes the genuine datagram
            if tape::chance(300) {
                fate.delay = self.latency_us.saturating_sub(100 + tape::range(0, 5) * 100);
            }
            let other = if self.seen.is_empty() {
                None
            } else {
                Some(self.seen[tape::choose(self.seen.len() as u32) as usize].clone())
            };
            let kind = if multicast { [0, 0, 1, 2, 3, 4, 5, 6, 7, 0, 1, 2][tape::choose(12) as usize] } else { tape::choose(12) };
            match kind {
                0 => {
                    // Bit flip in the unencrypted header (including the optional source node id /
                    // destination node or group id, when the flags say they are there)
                    let hdr = 8 + if bytes[0] & 0x04 != 0 { 8 } else { 0 }
                        + match bytes[0] & 0x03 {
                            1 => 8,
                            2 => 2,
                            _ => 0,
                        };
                    let hdr = hdr.min(len);
                    let i = if hdr > 8 && tape::chance(700) {
                        self.fire("forge_flip_optional_header_field");
                        8 + tape::choose((hdr - 8) as u32) as usize
                    } else {
                        self.fire("forge_flip_plain_header");
                        tape::choose(8.min(len as u32)) as usize
                    };
                    bytes[i] ^= 1 << tape::choose(8);
                }
                1 => {
                    // Bit flip in the encrypted protocol header / payload
                    let lo = 8.min(len - 1);
                    let hi = len.saturating_sub(16).max(lo + 1);
                    let i = lo + tape::choose((hi - lo) as u32) as usize;
                    bytes[i] ^= 1 << tape::choose(8);
                    self.fire("forge_flip_body");
                }
                2 => {
                    let i = len - 1 - tape::choose(16.min(len as u32)) as usize;
                    bytes[i] ^= 1 << tape::choose(8);
                    self.fire("forge_flip_tag");
                }
                3 => {
                    let k = 1 + tape::choose((len - 1) as u32) as usize;
                    bytes.truncate(len - k);
                    self.fire("forge_truncate");
                }
                4 => {
                    let k = 1 + tape::choose(20) as usize;
                    for _ in 0..k {
                        bytes.push(tape::choose(256) as u8);
                    }
                    self.fire("forge_extend");
                }
                5 => match &other {
                    // Session id of another live datagram
                    Some((_, _, o)) if o.len() >= 8 && o[1..3] != bytes[1..3] => {
                        bytes[1..3].copy_from_slice(&o[1..3]);
                        self.fire("forge_transplant_session_id");
                    }
                    _ => {
                        bytes[1] ^= 0x01;
                        self.fire("forge_flip_plain_header");
                    }
                },
                6 => match &other {
                    Some((_, _, o)) if o.len() >= 8 && o[4..8] != bytes[4..8] => {
                        bytes[4..8].copy_from_slice(&o[4..8]);
                        self.fire("forge_transplant_counter");
                    }
                    _ => {
                        let c = u32::from_le_bytes([bytes[4], bytes[5], bytes[6], bytes[7]]).wrapping_add(1 + tape::choose(40));
                        bytes[4..8].copy_from_slice(&c.to_le_bytes());
                        self.fire("forge_advance_counter");
                    }
                },
                7 => match &other {
                    // Header of this datagram on the body of another
                    Some((_, _, o)) if o.len() > 8 && o[8..] != bytes[8..] => {
                        bytes.truncate(8);
                        bytes.extend_from_slice(&o[8..]);
                        self.fire("forge_splice_header_body");
                    }
                    _ => {
                        bytes[0] ^= 0x04;
                        self.fire("forge_flip_plain_header");
                    }
                },
                8 => {
                    // Reflect to the sender: looks like coming from the peer
                    fate.redirect = Some(rec.src);
                    fate.spoof_src = Some(dst);
                    self.fire("forge_reflect");
                }
                9 => {
                    if self.n_nodes > 2 {
                        let third = (0..self.n_nodes).find(|n| *n != rec.src && *n != dst).unwrap();
                        fate.redirect = Some(third);
                        if tape::chance(500) {
                            fate.spoof_src = Some(dst);
                        }
                        self.fire("forge_redirect_third_node");
                    } else {
                        fate.redirect = Some(rec.src);
                        self.fire("forge_reflect_unspoofed");
                    }
                }
                10 => {
                    // Genuine bytes, forged source address
                    let other_node = (0..self.n_nodes).find(|n| *n != rec.src && (self.n_nodes == 2 || *n != dst)).unwrap_or(dst);
                    fate.spoof_src = Some(other_node);
                    self.fire("forge_source_address");
                }
                _ => match &other {
                    // A datagram of another session / direction delivered here
                    // (a group datagram is authentic for every member, wherever it is delivered:
                    // only unicast datagrams are foreign elsewhere)
                    Some((osrc, odst, o)) if !(*osrc == rec.src && *odst == dst) && *odst != usize::MAX => {
                        bytes = o.clone();
                        self.fire("forge_foreign_datagram");
                    }
                    _ => {
                        bytes[3] ^= 0x80;
                        self.fire("forge_flip_plain_header");
                    }
                },
            }
            if bytes != rec.bytes {
                fate.bytes = Some(bytes);
            }
            if fate.bytes.is_some() || fate.redirect.is_some() || fate.spoof_src.is_some() {
                fates.push(fate);
            }
        }
        if secured {
            self.seen.push((rec.src, dst, rec.bytes.clone()));
            if self.seen.len() > 24 {
                self.seen.remove(0);
            }
        }
        fates
    }
}

#[derive(Clone, Copy)]
pub struct C03Knobs {
    pub forge: bool,
    pub sched: bool,
    /// Every run has the group fabric and several group data messages (C04: group receive windows)
    pub force_group: bool,
}

fn gen_key(tag: u64) -> [u8; 16] {
    let mut r = crate::tape::Rng::new(tag);
    let mut k = [0u8; 16];
    k[..8].copy_from_slice(&r.next_u64().to_le_bytes());
    k[8..].copy_from_slice(&r.next_u64().to_le_bytes());
    k
}

pub fn gen_cfg(seed: u64, knobs: &C03Knobs) -> MrpCfg {
    let n_nodes = 2 + tape::biased(2, 400) as usize;
    // Sessions between node pairs; session ids may coincide across peers and directions
    let pairs: Vec<(usize, usize)> = if n_nodes == 2 {
        vec![(0, 1)]
    } else {
        vec![(0, 1), (0, 2), (1, 2)]
    };
    let mut planted = Vec::new();
    let same_ids = tape::biased(2, 400) == 1;
    for (i, (a, b)) in pairs.iter().enumerate() {
        let n = 1 + tape::biased(2, 300) as usize;
        for k in 0..n {
            let kind = if tape::biased(2, 350) == 1 { Kind::Pase } else { Kind::Case };
            let idx = planted.len();
            let sid = 10 + (k as u16) + if same_ids { 0 } else { 10 * i as u16 };
            planted.push(Planted {
                kind,
                a: *a,
                b: *b,
                a_local_sid: sid,
                b_local_sid: if same_ids { sid } else { sid + 100 },
                a_nodeid: 0x1111_0000 + *a as u64,
                b_nodeid: 0x1111_0000 + *b as u64,
                key_ab: gen_key(seed ^ (0xA0 + idx as u64)),
                key_ba: gen_key(seed ^ (0xB0 + idx as u64)),
            });
        }
    }
    // Session ids must be unique per node
    let mut used: BTreeSet<(usize, u16)> = BTreeSet::new();
    for p in planted.iter_mut() {
        while !used.insert((p.a, p.a_local_sid)) {
            p.a_local_sid += 1;
        }
        while !used.insert((p.b, p.b_local_sid)) {
            p.b_local_sid += 1;
        }
    }

    let n_wl = 1 + tape::choose(5) as usize;
    let mut workloads: Vec<Vec<Vec<Workload>>> = vec![Vec::new(); n_nodes];
    for w in 0..n_wl {
        let pl = tape::choose(planted.len() as u32) as usize;
        let node = if tape::biased(2, 300) == 1 { planted[pl].b } else { planted[pl].a };
        let steps = 1 + tape::choose(6) as usize;
        let mut script = Vec::new();
        for s in 0..steps {
            let mut b = 0u8;
            if s > 0 {
                let prev: Step = script[s - 1];
                let same = tape::biased(2, 250) == 1;
                if (same && prev.by_responder()) || (!same && !prev.by_responder()) {
                    b |= Step::BY_RESPONDER;
                }
            }
            if tape::biased(2, 60) == 1 {
                b |= Step::UNRELIABLE;
            }
            // Payload lengths from 0 extra bytes to the maximum
            b |= (tape::biased(8, 600) as u8) << Step::LEN_SHIFT;
            script.push(Step(b));
        }
        let wl = Workload {
            id: 1 + w as u16,
            planted: pl,
            start_delay_ms: tape::biased(8, 400) * 23,
            script,
            final_ack: tape::biased(2, 500) == 1,
            group: false,
        };
        let lists = &mut workloads[node];
        if !lists.is_empty() && tape::biased(2, 300) == 1 {
            let k = tape::choose(lists.len() as u32) as usize;
            lists[k].push(wl);
        } else {
            lists.push(vec![wl]);
        }
    }
    // Group data messages (source node id and destination group id in the header)
    let with_group = tape::biased(2, 350) == 1 || knobs.force_group;
    let mut group_fabric = None;
    if with_group {
        group_fabric = make_group_fabric(seed, n_nodes, 0x0101 + tape::choose(3) as u16);
        if group_fabric.is_some() {
            let n_group = if knobs.force_group { 3 + tape::choose(6) } else { 1 + tape::choose(3) };
            for _ in 0..n_group {
                let node = tape::choose(n_nodes as u32) as usize;
                let id = 100 + workloads.iter().map(|l| l.iter().map(|x| x.len()).sum::<usize>()).sum::<usize>() as u16;
                workloads[node].push(vec![Workload {
                    id,
                    planted: 0,
                    start_delay_ms: tape::biased(8, 400) * 31,
                    script: vec![Step(Step::UNRELIABLE | ((tape::biased(6, 500) as u8) << Step::LEN_SHIFT))],
                    final_ack: false,
                    group: true,
                }]);
            }
        }
    }
    let sched = if knobs.sched {
        SchedCfg {
            nonfifo_permille: [0, 50, 200, 500][tape::choose(4) as usize],
            burst_permille: [0, 100, 400][tape::choose(3) as usize],
            overtake_permille: 0,
            overtake_window: 50 * MS,
            max_polls: 400_000,
            max_time: 300 * SEC,
        }
    } else {
        SchedCfg {
            max_polls: 400_000,
            max_time: 300 * SEC,
            ..SchedCfg::default()
        }
    };
    MrpCfg {
        victims: Vec::new(),
        closes: Vec::new(),
        raw_msgs: Vec::new(),
        hold_until_us: 0,
        planted,
        workloads,
        handlers: (0..n_nodes).map(|_| 2 + tape::biased(3, 400) as usize).collect(),
        sai: vec![None; n_nodes],
        ppm: vec![0; n_nodes],
        behaviour: vec![HandlerBehaviour::default(); n_nodes],
        net: NetCfg {
            latency_us: 1_000,
            jitter_us: 0,
            drop_permille: if knobs.forge { [0, 30, 100][tape::choose(3) as usize] } else { 0 },
            dup_permille: 0,
            hold_permille: 0,
            hold_max_ms: 0,
            mode: AdvMode::Uniform,
        },
        sched,
        limit_us: 120 * SEC,
        cancels: Vec::new(),
        settle: false,
        group_fabric,
    }
}

fn fnv(b: &[u8]) -> u64 {
    let mut h: u64 = 0xcbf2_9ce4_8422_2325;
    for x in b {
        h ^= *x as u64;
        h = h.wrapping_mul(0x0000_0100_0000_01B3);
    }
    h
}

pub fn check_c03(run: &MrpRun, out: &mut Outcome) {
    let dg_by_id: BTreeMap<u64, &Dgram> = run.dgrams.iter().map(|d| (d.id, d)).collect();

    // (b) a forged / misrouted secured datagram is rejected before it touches anything
    let mut delivered_bytes: BTreeMap<(u64, usize), Vec<u8>> = BTreeMap::new();
    for (idx, ev) in run.tap.iter().enumerate() {
        match ev {
            TapEvent::Deliver { id, node, modified: true, bytes: Some(b), .. } => {
                delivered_bytes.insert((*id, *node), b.clone());
            }
            TapEvent::Consume { id, node, modified: true, .. } => {
                let Some(orig) = dg_by_id.get(id) else {
                    continue;
                };
                if !orig.plain.as_ref().map(|p| p.is_secured()).unwrap_or(false) {
                    continue;
                }
                out.count("forged_datagrams_consumed", 1);
                let evs: Vec<&XEvent> = run
                    .events
                    .iter()
                    .filter(|e| e.tap_pos == idx + 1 && e.node == *node)
                    .collect();
                let verdict = evs.iter().find_map(|e| match &e.ev {
                    Event::Rx { verdict, .. } => Some(*verdict),
                    _ => None,
                });
                let what = match delivered_bytes.get(&(*id, *node)) {
                    Some(b) if *b != orig.bytes => {
                        let first_diff = b.iter().zip(orig.bytes.iter()).position(|(x, y)| x != y);
                        format!(
                            "altered copy of datagram {} ({} -> {:?}, {} bytes, now {} bytes, first difference at offset {:?})",
                            id, orig.src, orig.dst, orig.bytes.len(), b.len(), first_diff
                        )
                    }
                    _ => format!("misrouted copy of datagram {} ({} -> {:?}) delivered to node {}", id, orig.src, orig.dst, node),
                };
                match verdict {
                    Some(RxVerdict::Error) | Some(RxVerdict::NoSession) | Some(RxVerdict::NoSpaceSessions) => {
                        out.count("forged_datagrams_rejected", 1);
                    }
                    Some(v) => out.violate(
                        "forged-datagram-authenticated",
                        format!("node {node}: {what} passed authentication (transport verdict {:?})", v),
                    ),
                    None => {
                        out.count("forged_datagrams_without_verdict", 1);
                    }
                }
                for e in &evs {
                    if let Event::RxCtr { session_id, ctr, accepted, .. } = &e.ev {
                        out.violate(
                            "receive-window-touched-by-forged-datagram",
                            format!(
                                "node {node}: {what} made session {session_id} classify counter {ctr:#x} (accepted: {accepted})"
                            ),
                        );
                    }
                }
            }
            _ => {}
        }
    }

    // (a) what an application receives is what the true peer submitted on that exchange, step and direction
    let mut sent: BTreeMap<(usize, u16, u8, bool), u64> = BTreeMap::new();
    for e in &run.log {
        if let AppKind::SendStart { seq, hash, .. } = &e.kind {
            sent.insert((e.node, e.wl, *seq, e.initiator), *hash);
        }
    }
    let group_wls: BTreeSet<u16> = run
        .cfg
        .workloads
        .iter()
        .flat_map(|lists| lists.iter().flat_map(|l| l.iter().filter(|w| w.group).map(|w| w.id)))
        .collect();
    let wl_nodes: BTreeMap<u16, (usize, usize)> = run
        .cfg
        .workloads
        .iter()
        .enumerate()
        .flat_map(|(n, lists)| {
            lists.iter().flat_map(move |l| {
                l.iter().map(move |w| {
                    let p = &run.cfg.planted[w.planted];
                    (w.id, (n, if p.a == n { p.b } else { p.a }))
                })
            })
        })
        .collect();
    for e in &run.log {
        match &e.kind {
            AppKind::Recv { seq, hash, payload_wl } => {
                out.count("application_messages_received", 1);
                let Some((ini, resp)) = wl_nodes.get(payload_wl) else {
                    out.violate("foreign-content-delivered", format!("node {} received a message of unknown workload {}", e.node, payload_wl));
                    continue;
                };
                // The receiver is one end of the workload's session, the sender the other end
                let is_group = group_wls.contains(payload_wl);
                if is_group {
                    out.count("group_messages_received", 1);
                }
                let sender = if e.initiator { *resp } else { *ini };
                // (a group message reaches every other node)
                let receiver = if is_group && e.node != *ini { e.node } else if e.initiator { *ini } else { *resp };
                let genuine = sent.get(&(sender, *payload_wl, *seq, !e.initiator)) == Some(hash);
                if e.node != receiver || !genuine || (e.wl != 0xffff && e.wl != *payload_wl) {
                    out.violate(
                        "foreign-content-delivered",
                        format!(
                            "node {} (initiator: {}) exchange of workload {} received step {} of workload {} with content hash {:#x}; its true peer (node {}) submitted {:x?} for that step",
                            e.node, e.initiator, e.wl, seq, payload_wl, hash, sender,
                            sent.get(&(sender, *payload_wl, *seq, !e.initiator))
                        ),
                    );
                }
            }
            AppKind::Foreign { proto, opcode } => out.violate(
                "foreign-content-delivered",
                format!("node {} workload {} received a message of protocol {:#x} opcode {:#x}", e.node, e.wl, proto, opcode),
            ),
            _ => {}
        }
    }

    // (c) what one node encodes the independent codec decodes, and the peer's exchange received exactly that
    let recv_hashes: BTreeSet<(usize, u16, u8, u64)> = run
        .log
        .iter()
        .filter_map(|e| match &e.kind {
            AppKind::Recv { seq, hash, payload_wl } => Some((e.node, *payload_wl, *seq, *hash)),
            _ => None,
        })
        .collect();
    for d in &run.dgrams {
        let Some(plain) = &d.plain else {
            continue;
        };
        if !plain.is_secured() || d.planted.is_none() || d.src_inc == 0 {
            continue;
        }
        match &d.proto {
            None => out.violate(
                "encoding-not-decodable",
                format!("datagram {} of node {} on planted session {:?} does not decode under the session's keys with the harness codec", d.id, d.src, d.planted),
            ),
            Some(proto) => {
                out.count("genuine_datagrams_cross_decoded", 1);
                if let (Some((wl, seq)), Some(dst)) = (d.app, d.dst) {
                    let h = fnv(&proto.payload);
                    // If the peer's application got this step at all, it got these bytes
                    let got: Vec<&(usize, u16, u8, u64)> =
                        recv_hashes.iter().filter(|(n, w, s, _)| *n == dst && *w == wl && *s == seq).collect();
                    if !got.is_empty() && !got.iter().any(|(_, _, _, hh)| *hh == h) {
                        out.violate(
                            "decoded-differs-from-encoded",
                            format!("datagram {} (workload {wl} step {seq}): the tap decodes content hash {h:#x}, node {dst} received {:x?}", d.id, got),
                        );
                    }
                }
            }
        }
    }

    // Keys of the planted sessions are what was planted
    for (n, snap) in run.snaps.iter().enumerate() {
        let Some(snap) = snap else {
            continue;
        };
        for s in &snap.sessions {
            for p in &run.cfg.planted {
                let (sid, enc, dec) = if p.a == n {
                    (p.a_local_sid, &p.key_ab, &p.key_ba)
                } else if p.b == n {
                    (p.b_local_sid, &p.key_ba, &p.key_ab)
                } else {
                    continue;
                };
                let unicast = matches!(
                    s.mode,
                    rs_matter::transport::session::SessionMode::Case { .. } | rs_matter::transport::session::SessionMode::Pase { .. }
                );
                if unicast && s.local_sess_id == sid && !s.reserved && (s.enc_key != *enc || s.dec_key != *dec) {
                    out.violate("session-keys-changed", format!("node {n} session {sid}: keys differ from the established ones"));
                }
            }
        }
    }
}

pub struct C03Scenario {
    pub name: &'static str,
    pub knobs: C03Knobs,
}

/// C04 over the same world: the receive windows (unicast sessions and group senders) of real
/// stacks while forged datagrams arrive next to the authentic ones
pub struct C04ForgedScenario;

impl Scenario for C04ForgedScenario {
    fn property(&self) -> &'static str {
        "C04"
    }
    fn name(&self) -> &'static str {
        "system-group-senders-and-forgeries"
    }
    fn run(&self, seed: u64) -> Outcome {
        let knobs = C03Knobs { forge: true, sched: true, force_group: true };
        let cfg = gen_cfg(seed, &knobs);
        let n_nodes = cfg.workloads.len();
        let drop_permille = cfg.net.drop_permille;
        let mutate_permille = [150, 300, 600][tape::choose(3) as usize];
        let run = drive_with(seed, cfg, move |fired| {
            Box::new(Corruptor { n_nodes, mutate_permille, drop_permille, latency_us: 1_000, seen: Vec::new(), fired })
        });
        let mut out = Outcome::default();
        common_counters(&run, &mut out);
        crate::props::mrp_oracles::check_c04_sys(&run, &mut out);
        check_c04_group_sys(&run, &mut out);
        out.sample = Some(sample_of(&run));
        out
    }
}

/// Per (receiving node, group sender): an authentic, unaltered group data message whose counter
/// is greater than every counter accepted from that sender so far is accepted - whatever forged
/// datagrams arrived in between - and none is accepted twice.
pub fn check_c04_group_sys(run: &MrpRun, out: &mut Outcome) {
    let dg_by_id: BTreeMap<u64, &Dgram> = run.dgrams.iter().map(|d| (d.id, d)).collect();
    // (receiver, sender, group session id on the wire) -> (accepted counters, maximum)
    let mut windows: BTreeMap<(usize, usize, u16), (BTreeSet<u32>, Option<u32>)> = BTreeMap::new();
    for (idx, ev) in run.tap.iter().enumerate() {
        let TapEvent::Consume { id, node, modified: false, .. } = ev else {
            continue;
        };
        let Some(orig) = dg_by_id.get(id) else {
            continue;
        };
        let Some(plain) = &orig.plain else {
            continue;
        };
        if !plain.is_group() || orig.src_inc == 0 {
            continue;
        }
        let verdict = run.events.iter().filter(|e| e.tap_pos == idx + 1 && e.node == *node).find_map(|e| match &e.ev {
            Event::Rx { verdict, .. } => Some(*verdict),
            _ => None,
        });
        let w = windows.entry((*node, orig.src, plain.sess_id)).or_default();
        let newer = w.1.map(|m| plain.ctr > m).unwrap_or(true);
        match verdict {
            Some(RxVerdict::Processed { .. }) | Some(RxVerdict::StandaloneAck) => {
                out.count("c04_group_messages_accepted", 1);
                if !w.0.insert(plain.ctr) {
                    out.violate(
                        "C04-accepted-twice",
                        format!("node {node}: group message of node {} with counter {:#x} (datagram {id}) accepted a second time", orig.src, plain.ctr),
                    );
                }
                if newer {
                    w.1 = Some(plain.ctr);
                }
            }
            Some(RxVerdict::Duplicate) => {
                if newer && !w.0.contains(&plain.ctr) {
                    out.violate(
                        "C04-new-maximum-rejected",
                        format!(
                            "node {node}: authentic group message of node {} with counter {:#x} (datagram {id}), greater than every counter accepted from that sender so far ({:x?}), was classified duplicate",
                            orig.src, plain.ctr, w.1
                        ),
                    );
                } else {
                    out.count("c04_group_true_duplicates", 1);
                }
            }
            _ => {}
        }
    }
}

impl Scenario for C03Scenario {
    fn property(&self) -> &'static str {
        "C03"
    }

    fn name(&self) -> &'static str {
        self.name
    }

    fn run(&self, seed: u64) -> Outcome {
        let cfg = gen_cfg(seed, &self.knobs);
        let n_nodes = cfg.workloads.len();
        let forge = self.knobs.forge;
        let drop_permille = cfg.net.drop_permille;
        let mutate_permille = if forge { [150, 300, 600][tape::choose(3) as usize] } else { 0 };
        let run = drive_with(seed, cfg, move |fired| {
            Box::new(Corruptor {
                n_nodes,
                mutate_permille,
                drop_permille,
                latency_us: 1_000,
                seen: Vec::new(),
                fired,
            })
        });
        let mut out = Outcome::default();
        common_counters(&run, &mut out);
        check_c03(&run, &mut out);
        out.sample = Some(sample_of(&run));
        if std::env::var_os("VERIF_DUMP").is_some() {
            for (i, ev) in run.tap.iter().enumerate() {
                match ev {
                    TapEvent::Send(s) => eprintln!("TAP {i} send id={} {}->{:?} len={}", s.id, s.src, net::addr_node(&s.dst), s.bytes.len()),
                    TapEvent::Deliver { id, node, modified, accepted, .. } => {
                        eprintln!("TAP {i} deliver id={id} node={node} modified={modified} accepted={accepted}")
                    }
                    TapEvent::Consume { id, node, modified, .. } => eprintln!("TAP {i} consume id={id} node={node} modified={modified}"),
                }
            }
            for e in &run.events {
                eprintln!("EV pos={} t={} n={} {:?}", e.tap_pos, e.time, e.node, e.ev);
            }
            for e in &run.log {
                eprintln!("APP t={} n={} wl={} init={} {:?}", e.time, e.node, e.wl, e.initiator, e.kind);
            }
        }
        out
    }
}

/// C03 with a raw peer: a conforming peer other than rs-matter answers the exchanges a stack
/// opens with it, using every combination of the optional protocol header fields (acknowledgement
/// counter, protocol vendor id, both) - shapes rs-matter itself never puts on the wire but has to
/// decode to the fields that were encoded.
pub struct RawPeerShapes {
    pub forge: bool,
}

impl Scenario for RawPeerShapes {
    fn property(&self) -> &'static str {
        "C03"
    }
    fn name(&self) -> &'static str {
        if self.forge {
            "raw-peer-header-shapes-and-forgeries"
        } else {
            "raw-peer-header-shapes"
        }
    }

    fn run(&self, seed: u64) -> Outcome {
        let knobs = C03Knobs { forge: self.forge, sched: self.forge, force_group: false };
        let mut cfg = gen_cfg(seed, &knobs);
        let n_nodes = cfg.workloads.len();
        let a = tape::choose(n_nodes as u32) as usize;
        let idx = cfg.planted.len();
        cfg.planted.push(Planted {
            kind: if tape::choose(2) == 1 { Kind::Pase } else { Kind::Case },
            a,
            b: RAW_NODE,
            a_local_sid: 80,
            b_local_sid: 90,
            a_nodeid: 0x1111_0300,
            b_nodeid: 0x3333_0300,
            key_ab: gen_key(seed ^ 0xF1),
            key_ba: gen_key(seed ^ 0xF2),
        });
        for k in 0..1 + tape::choose(3) {
            // The two ends take turns; what the stack sends is reliable (the raw peer answers it)
            let steps = 1 + tape::choose(5) as usize;
            let script = (0..steps)
                .map(|s| {
                    let mut b = ((tape::biased(6, 400) as u8) << Step::LEN_SHIFT) | if s % 2 == 1 { Step::BY_RESPONDER | Step::UNRELIABLE } else { 0 };
                    if s % 2 == 1 && tape::chance(300) {
                        b |= Step::ACK_AFTER;
                    }
                    Step(b)
                })
                .collect();
            cfg.workloads[a].push(vec![Workload {
                id: 200 + k as u16,
                planted: idx,
                start_delay_ms: tape::biased(8, 400) * 29,
                script,
                final_ack: false,
                group: false,
            }]);
        }
        let forge = self.forge;
        let drop_permille = cfg.net.drop_permille;
        let mutate_permille = if forge { [150, 300, 600][tape::choose(3) as usize] } else { 0 };
        let planted = cfg.planted.clone();
        let app_log: Rc<RefCell<Vec<AppEv>>> = Rc::new(RefCell::new(Vec::new()));
        let replies: Rc<RefCell<Vec<RawReply>>> = Rc::new(RefCell::new(Vec::new()));
        let (al, rp) = (app_log.clone(), replies.clone());
        let mut run = drive_with(seed, cfg, move |fired| {
            Box::new(RawResponder {
                inner: Box::new(Corruptor { n_nodes, mutate_permille, drop_permille, latency_us: 1_000, seen: Vec::new(), fired: fired.clone() }),
                planted,
                seed,
                latency_us: 1_000,
                ctrs: BTreeMap::new(),
                given: BTreeMap::new(),
                app_log: al,
                replies: rp,
                fired,
            })
        });
        // The raw peer's own application events belong to the history
        run.log.extend(app_log.borrow().iter().cloned());
        run.log.sort_by_key(|e| e.time);
        let mut out = Outcome::default();
        common_counters(&run, &mut out);
        check_c03(&run, &mut out);
        check_raw_replies(&run, &replies.borrow(), &mut out);
        out.sample = Some(sample_of(&run));
        out
    }
}

/// What the raw peer encoded the stack decoded: an acknowledgement carried by a message of the
/// raw peer (whatever other optional header fields it has) ends the retransmissions of the
/// acknowledged message once the stack took that message in.
pub fn check_raw_replies(run: &MrpRun, replies: &[RawReply], out: &mut Outcome) {
    for r in replies {
        out.count(
            match (r.vendor.is_some(), r.with_ack, r.standalone) {
                (_, _, true) => "raw_replies_standalone_ack",
                (true, true, _) => "raw_replies_vendor_and_ack",
                (true, false, _) => "raw_replies_vendor_only",
                (false, _, _) => "raw_replies_ack_only",
            },
            1,
        );
        let stack = run.cfg.planted[r.planted].a;
        // The datagram on the tap, and when the stack's transport took it in (and accepted it)
        let Some((id, _)) = run.tap.iter().find_map(|e| match e {
            TapEvent::Send(s) if s.src == RAW_NODE && s.bytes == r.bytes && s.time >= r.time => Some((s.id, s.time)),
            _ => None,
        }) else {
            continue;
        };
        let taken = run.tap.iter().enumerate().find_map(|(i, e)| match e {
            TapEvent::Consume { id: cid, node, time, modified: false } if *cid == id && *node == stack => Some((i, *time)),
            _ => None,
        });
        let Some((tap_idx, t_taken)) = taken else {
            continue;
        };
        let verdict = run.events.iter().filter(|e| e.tap_pos == tap_idx + 1 && e.node == stack).find_map(|e| match &e.ev {
            Event::Rx { verdict, .. } => Some(*verdict),
            _ => None,
        });
        // The first copy of an authentic message the stack has never seen: not a duplicate, not
        // an error (its exchange may be gone by now, though)
        if matches!(verdict, Some(RxVerdict::Duplicate) | Some(RxVerdict::Error)) {
            out.violate(
                "decoded-differs-from-encoded",
                format!(
                    "node {stack} classified the first copy of an authentic message of the raw peer (acknowledging counter {:#x}: {}, vendor id {:x?}, stand-alone acknowledgement: {}) as {verdict:?} at t={t_taken}",
                    r.acked, r.with_ack, r.vendor, r.standalone
                ),
            );
        }
        if !r.with_ack || !matches!(verdict, Some(RxVerdict::Processed { .. }) | Some(RxVerdict::StandaloneAck)) {
            continue;
        }
        out.count("raw_acknowledgements_taken_in", 1);
        if let Some(d) = run.dgrams.iter().find(|d| {
            d.src == stack && d.src_inc != 0 && d.planted == Some(r.planted) && d.plain.as_ref().map(|p| p.ctr) == Some(r.acked) && d.time > t_taken
        }) {
            out.violate(
                "decoded-differs-from-encoded",
                format!(
                    "node {stack} took in (t={t_taken}, verdict {verdict:?}) a message of the raw peer acknowledging counter {:#x} (vendor id {:x?}, stand-alone: {}), yet retransmitted that message at t={}: the acknowledgement counter it decoded is not the one that was encoded",
                    r.acked, r.vendor, r.standalone, d.time
                ),
            );
        }
    }
}

pub fn defs() -> Vec<PropertyDef> {
    vec![PropertyDef {
        id: "C03",
        level: "exploration",
        families: vec![
            Family {
                scenario: Box::new(C03Scenario { name: "authentic-traffic-only", knobs: C03Knobs { forge: false, sched: false, force_group: false } }),
                weight: 1,
                fault_free: true,
            },
            Family {
                scenario: Box::new(C03Scenario { name: "forged-and-misrouted", knobs: C03Knobs { forge: true, sched: true, force_group: false } }),
                weight: 6,
                fault_free: false,
            },
            Family {
                scenario: Box::new(RawPeerShapes { forge: false }),
                weight: 1,
                fault_free: false,
            },
            Family {
                scenario: Box::new(RawPeerShapes { forge: true }),
                weight: 2,
                fault_free: false,
            },
        ],
        rule: "each run = 2-3 real stacks, 1-2 planted PASE/CASE sessions per node pair (session ids coinciding across peers and directions in part of the runs), 1-5 scripted exchanges with payloads of 0 bytes to the maximum; every secured datagram is, with a per-run probability of 15-60 %, accompanied by one crafted variant (bit flip in plain header / body / tag, truncation, extension, transplanted session id or counter, header spliced on a foreign body, foreign datagram, reflection to the sender, redirection to a third node, forged source address), delivered before or after the genuine one; in a third of the runs the nodes are members of one real fabric with group keys and exchange group data messages (source node id and destination group id in the header, multicast), which are forged the same way; families raw-peer-header-shapes(-and-forgeries): one stack additionally talks to a raw peer (harness-made, authentic under the session keys, standing for a conforming implementation other than rs-matter) which answers with stand-alone acknowledgements and with messages carrying an acknowledgement, a protocol vendor id, or both; distinct = distinct trace hash; non-trivial = at least one application message received and one fault fired",
        assumptions: vec![
            "harness (executor, network, tape, independent AES-CCM codec, oracles) is trusted",
            "the adversary can read, alter, misroute and inject datagrams but does not know session keys",
            "sessions are planted through the public ReservedSession API; group sessions come from a real fabric with a group key set (Exchange::initiate_group)",
            "sampling, not enumeration: the single-bit flips cover every offset only statistically (counts in the evidence)",
        ],
        real: "rs-matter packet decode / encode (plain and protocol header, AES-CCM with the header as associated data, nonce from security flags, counter and source node id), session lookup by peer address + session id, receive-window update after successful decode, exchange dispatch, MRP",
        stubbed: "UDP (simulated, adversarial), clock, RNG, application (scripted exchanges); sessions planted instead of PASE/CASE handshakes",
        budget_s: (45, 450),
    }]
}
