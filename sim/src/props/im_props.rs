//! Properties decided in the im world: C06 (access mediation), C14 (chunked answers), C13
//! (subscriptions).

use std::collections::{BTreeMap, BTreeSet};

use rs_matter::transport::exchange::MAX_EXCHANGE_TX_BUF_SIZE;
use serde_json::{json, Value};

use crate::kernel::{SchedCfg, MS, SEC};
use crate::props::im_model::*;
use crate::props::{Family, PropertyDef};
use crate::runner::{Outcome, Scenario};
use crate::tape;
use crate::tlvx::Val;
use crate::worlds::im::*;
use crate::worlds::im_drive::*;
use crate::worlds::mrp::Kind;
use crate::worlds::mrp_drive::{AdvMode, NetCfg};

/// Largest octet string which still fits an otherwise empty chunk (see DESIGN.md, C14)
pub const VALUE_CAP: usize = MAX_EXCHANGE_TX_BUF_SIZE - 80;

const DEV_NODEID: u64 = 0xD0_0001;

fn ctl_nodeid(pair: usize) -> u64 {
    0xC0_0001 + pair as u64
}

#[derive(Clone, Copy, Debug)]
pub struct ImKnobs {
    pub faults: bool,
    pub sched: bool,
    /// Reads / subscriptions only, requester is an administrator
    pub chunk_focus: bool,
    /// Writes, invokes, timed interactions, several requesters
    pub access_focus: bool,
    /// Composition / ACL changes while answers are in flight
    pub dynamic: bool,
}

fn benign_net() -> NetCfg {
    NetCfg {
        latency_us: 1_000,
        jitter_us: 0,
        drop_permille: 0,
        dup_permille: 0,
        hold_permille: 0,
        hold_max_ms: 0,
        mode: AdvMode::Uniform,
    }
}

fn faulty_net() -> NetCfg {
    NetCfg {
        latency_us: 200 + tape::choose(5) as u64 * 2_000,
        jitter_us: tape::choose(4) as u64 * 3_000,
        drop_permille: [0, 30, 100, 200][tape::choose(4) as usize],
        dup_permille: [0, 50, 150, 300][tape::choose(4) as usize],
        hold_permille: [0, 50, 150][tape::choose(3) as usize],
        hold_max_ms: [20, 400, 2000][tape::choose(3) as usize],
        mode: AdvMode::Uniform,
    }
}

fn sched(knob: bool, max_time: u64) -> SchedCfg {
    if knob {
        SchedCfg {
            nonfifo_permille: [0, 50, 200, 500][tape::choose(4) as usize],
            burst_permille: [0, 100, 400][tape::choose(3) as usize],
            overtake_permille: 0,
            overtake_window: 50 * MS,
            max_polls: 600_000,
            max_time,
        }
    } else {
        SchedCfg {
            max_polls: 600_000,
            max_time,
            ..SchedCfg::default()
        }
    }
}

const ATTR_ACCESS_MENU: [u16; 9] = [
    0x0011, // RV
    0x0011, // RV
    0x0035, // RWVM
    0x0039, // RWVA
    0x0018, // read admin
    0x0013, // read view/operate
    0x0028, // write-only admin
    0x0135, // RWVM timed-only
    0x002e, // write-only operate
];

const CMD_ACCESS_MENU: [u16; 6] = [
    0x002e, // operate
    0x002c, // manage
    0x0028, // admin
    0x012e, // operate, timed-only
    0x0068, // admin, fabric-scoped
    0x002e,
];

fn gen_size() -> usize {
    match tape::biased(8, 650) {
        0 => 4 + tape::choose(12) as usize,
        1 => 40 + tape::choose(60) as usize,
        2 => 200 + tape::choose(200) as usize,
        3 => 500 + tape::choose(300) as usize,
        4 => VALUE_CAP - tape::choose(16) as usize,
        5 => VALUE_CAP / 2 - 20 + tape::choose(40) as usize,
        6 => VALUE_CAP - 300 + tape::choose(300) as usize,
        _ => 4,
    }
}

fn gen_composition(n_pairs: usize, knobs: &ImKnobs) -> Composition {
    let with_root = tape::biased(2, 250) == 1;
    let n_eps = 1 + tape::biased(3, 400) as usize;
    let n_cluster_ids = 1 + tape::biased(3, 400);
    let mut endpoints = Vec::new();
    let mut ep_id = 0u16;
    for _ in 0..n_eps {
        ep_id += 1 + tape::biased(3, 200) as u16;
        let n_cl = 1 + tape::biased(n_cluster_ids, 400);
        let first = tape::choose(n_cluster_ids);
        let mut clusters = Vec::new();
        let mut ids: Vec<u32> = (0..n_cl).map(|k| SYNTH_BASE + (first + k) % n_cluster_ids).collect();
        ids.sort();
        ids.dedup();
        for id in ids {
            let n_attrs = 1 + tape::biased(if knobs.chunk_focus { 9 } else { 6 }, if knobs.chunk_focus { 750 } else { 500 });
            let mut attrs = Vec::new();
            for a in 0..n_attrs {
                let kind = match tape::biased(4, if knobs.chunk_focus { 750 } else { 450 }) {
                    0 | 3 => AKind::U32,
                    1 => AKind::Octets(gen_size()),
                    _ => {
                        let items = [0usize, 1, 2, 5, 12, 40][tape::biased(6, 600) as usize];
                        AKind::List { items, item_len: gen_size().max(6) }
                    }
                };
                let access = if knobs.chunk_focus {
                    0x0035
                } else {
                    ATTR_ACCESS_MENU[tape::biased(ATTR_ACCESS_MENU.len() as u32, 300) as usize]
                };
                // Write-only list attributes make no sense for the synthetic handler
                let kind = if access & A_READ == 0 { AKind::U32 } else { kind };
                attrs.push(AttrSpec { id: a, kind, access });
            }
            let mut cmds = Vec::new();
            let mut events = Vec::new();
            if !knobs.chunk_focus {
                for k in 0..tape::biased(4, 400) {
                    cmds.push(CmdSpec {
                        id: k,
                        access: CMD_ACCESS_MENU[tape::biased(CMD_ACCESS_MENU.len() as u32, 300) as usize],
                        resp: tape::biased(2, 400) == 1,
                    });
                }
            }
            for k in 0..tape::biased(3, 400) {
                events.push(EvtSpec {
                    id: k,
                    access: if knobs.chunk_focus || tape::biased(2, 300) == 0 { 0x0011 } else { 0x0018 },
                });
            }
            clusters.push(ClusterSpec { id, attrs, cmds, events });
        }
        endpoints.push(EndpointSpec { id: ep_id, clusters });
    }

    // ACL
    let mut acl = Vec::new();
    if knobs.chunk_focus {
        for fab in 1..=2 {
            acl.push(AclSpec { fab, privilege: 5, subjects: vec![], targets: vec![] });
        }
    } else {
        for fab in 1..=2u8 {
            let n = 1 + tape::biased(3, 400);
            for _ in 0..n {
                let privilege = [5u8, 1, 3, 4][tape::biased(4, 400) as usize];
                let subjects = match tape::biased(3, 400) {
                    0 => vec![],
                    1 => vec![ctl_nodeid(tape::choose(n_pairs as u32) as usize)],
                    _ => vec![0xBAD_0001],
                };
                let ep = endpoints[tape::choose(endpoints.len() as u32) as usize].id;
                let cl = SYNTH_BASE + tape::choose(n_cluster_ids);
                let targets = match tape::biased(4, 400) {
                    0 => vec![],
                    1 => vec![(Some(ep), None)],
                    2 => vec![(None, Some(cl))],
                    _ => vec![(Some(ep), Some(cl))],
                };
                acl.push(AclSpec { fab, privilege, subjects, targets });
            }
        }
    }
    Composition { with_root, endpoints, acl, fabrics: 2 }
}

fn gen_path(comp: &Composition, leaf_kind: u8) -> PathSpec {
    // leaf_kind: 0 attribute, 1 command, 2 event
    let eps = &comp.endpoints;
    let e = &eps[tape::choose(eps.len() as u32) as usize];
    let c = &e.clusters[tape::choose(e.clusters.len() as u32) as usize];
    let ep = match tape::biased(6, 500) {
        0 | 3 | 4 => Some(e.id),
        1 => None,
        2 => Some(e.id + 1),
        _ => Some(if comp.with_root { 0 } else { e.id }),
    };
    let cl = match tape::biased(5, 550) {
        0 | 3 => Some(c.id),
        1 => None,
        2 => Some(SYNTH_BASE + 0x40),
        _ => Some(SYNTH_BASE + tape::choose(3)),
    };
    let n_leaves = match leaf_kind {
        0 => c.attrs.len(),
        1 => c.cmds.len(),
        _ => c.events.len(),
    } as u32;
    let leaf = match tape::biased(5, 550) {
        0 | 3 => Some(if n_leaves > 0 { tape::choose(n_leaves) } else { 0 }),
        1 => None,
        2 => Some(0x77),
        _ => Some(if leaf_kind == 0 { 0xfffd - tape::choose(6) } else { 0 }),
    };
    PathSpec { ep, cl, leaf }
}

fn gen_pairs(n_ctl: usize, knobs: &ImKnobs) -> Vec<Pair> {
    let n_pairs = if knobs.chunk_focus { 1 } else { 1 + tape::biased(3, 500) as usize };
    (0..n_pairs)
        .map(|i| {
            let (kind, fab) = if knobs.chunk_focus {
                (Kind::Case, 1)
            } else {
                match tape::biased(3, 450) {
                    0 => (Kind::Case, 1),
                    1 => (Kind::Case, 2),
                    _ => (Kind::Pase, 0),
                }
            };
            Pair {
                kind,
                ctl_node: 1 + i % n_ctl,
                dev_fab: fab.max(1),
                ctl_nodeid: ctl_nodeid(i),
                dev_nodeid: DEV_NODEID,
            }
        })
        .collect()
}

/// Configuration for the request / response families (no subscriptions living on)
pub fn gen_static(_seed: u64, knobs: &ImKnobs) -> ImCfg {
    let n_ctl = 1 + tape::biased(2, 300) as usize;
    let pairs = gen_pairs(n_ctl, knobs);
    let comp = gen_composition(pairs.len(), knobs);

    // Events are emitted before the first request
    let mut dev_script = Vec::new();
    let mut emits = Vec::new();
    let n_ev = [0u32, 0, 3, 12, 50][tape::biased(5, 400) as usize];
    let with_events: Vec<(u16, u32, u32)> = comp
        .endpoints
        .iter()
        .flat_map(|e| e.clusters.iter().flat_map(move |c| c.events.iter().map(move |v| (e.id, c.id, v.id))))
        .collect();
    if !with_events.is_empty() {
        for _ in 0..n_ev {
            let (ep, cl, event) = with_events[tape::choose(with_events.len() as u32) as usize];
            emits.push(DevOp::Emit { ep, cl, event, prio: tape::choose(3) as u8 });
        }
    }
    if !emits.is_empty() {
        dev_script.push(DevStep { trig: Trig::AtMs(1), ops: emits });
    }
    if knobs.dynamic {
        let n = 1 + tape::biased(3, 400);
        for _ in 0..n {
            let trig = Trig::AfterReads(1 + tape::biased(40, 300));
            let op = match tape::biased(3, 400) {
                0 => DevOp::SetEnabled {
                    ep_index: tape::choose(comp.endpoints.len() as u32) as usize,
                    on: tape::biased(2, 300) == 1,
                },
                1 => DevOp::AclRemove { fab: 1 + tape::choose(2) as u8, index: 0 },
                _ => DevOp::SetEnabled {
                    ep_index: tape::choose(comp.endpoints.len() as u32) as usize,
                    on: false,
                },
            };
            dev_script.push(DevStep { trig, ops: vec![op] });
        }
    }

    let mut controllers: Vec<CtlCfg> = (0..n_ctl)
        .map(|_| CtlCfg { scripts: Vec::new(), report_behaviour: Vec::new(), n_report_handlers: 1 })
        .collect();
    let mut op_id = 1u16;
    for (pi, pair) in pairs.iter().enumerate() {
        let n_ops = 1 + tape::biased(5, 500);
        let mut list = vec![CtlStep {
            op_id: 0,
            pair: pi,
            op: CtlOp::Sleep { ms: 20 + tape::biased(4, 300) * 15 },
            status_delay_ms: 0,
            fail_after_chunks: None,
        }];
        for _ in 0..n_ops {
            let kind = if knobs.chunk_focus {
                tape::biased(2, 250)
            } else {
                // 0 read, 1 subscribe, 2 write, 3 invoke
                [0, 2, 3, 0, 2, 3, 1][tape::biased(7, 700) as usize]
            };
            let timed = |want: bool| -> (Option<TimedSpec>, bool) {
                if !want {
                    return (None, false);
                }
                match tape::biased(6, 500) {
                    0 => (None, false),
                    1 => (Some(TimedSpec { timeout_ms: 500, delay_ms: 0 }), true),
                    2 => (Some(TimedSpec { timeout_ms: 200, delay_ms: 600 }), true),
                    3 => (Some(TimedSpec { timeout_ms: 500, delay_ms: 0 }), false),
                    4 => (None, true),
                    _ => (Some(TimedSpec { timeout_ms: 300, delay_ms: 100 }), true),
                }
            };
            let op = match kind {
                0 | 1 => {
                    let n_paths = 1 + tape::biased(4, 450);
                    let mut attrs: Vec<PathSpec> = (0..n_paths).map(|_| gen_path(&comp, 0)).collect();
                    // The invalid wildcard shape is generated rarely (it refuses the whole request)
                    if tape::biased(8, 100) == 0 {
                        for p in attrs.iter_mut() {
                            if p.cl.is_none() && matches!(p.leaf, Some(l) if l < 0xfff8) {
                                p.leaf = None;
                            }
                        }
                    }
                    let n_ev_paths = tape::biased(3, 400);
                    let events: Vec<PathSpec> = (0..n_ev_paths).map(|_| gen_path(&comp, 2)).collect();
                    if kind == 0 || pair.kind == Kind::Pase {
                        // Data version filters: the initial data version (match) or another one
                        let mut dv_filters = Vec::new();
                        if !knobs.dynamic && !knobs.access_focus && tape::biased(3, 300) == 0 {
                            for (ei, e) in comp.endpoints.iter().enumerate() {
                                for (ci, c) in e.clusters.iter().enumerate() {
                                    if tape::biased(2, 500) == 1 {
                                        let dv = 0x1000 * (ei as u32 + 1) + 0x100 * ci as u32 + 1;
                                        dv_filters.push((e.id, c.id, dv + tape::biased(2, 300) * 7));
                                    }
                                }
                            }
                        }
                        CtlOp::Read {
                            attrs,
                            events,
                            fabric_filtered: tape::biased(2, 500) == 1,
                            dv_filters,
                            event_min: if tape::biased(3, 300) == 0 { Some(tape::choose(20) as u64) } else { None },
                        }
                    } else {
                        CtlOp::Subscribe {
                            attrs,
                            events,
                            min_s: 0,
                            max_s: 60,
                            keep: true,
                            fabric_filtered: false,
                        }
                    }
                }
                2 => {
                    let (t, flag) = timed(tape::biased(2, 400) == 1);
                    let n = 1 + tape::biased(4, 500) as usize;
                    let items = (0..n)
                        .map(|i| {
                            let mut p = gen_path(&comp, 0);
                            if p.cl.is_none() || p.leaf.is_none() {
                                // Write paths need a concrete cluster and attribute (mostly)
                                if tape::biased(4, 100) != 0 {
                                    let e = &comp.endpoints[0];
                                    p.cl = Some(e.clusters[0].id);
                                    p.leaf = Some(0);
                                }
                            }
                            (p, 0x8000_0000 | ((op_id as u32) << 8) | i as u32)
                        })
                        .collect();
                    let items: Vec<(PathSpec, u32)> = items;
                    // A write in two chunks: the second one comes later (possibly after the timed
                    // window) and carries its own TimedRequest flag
                    let second = if items.len() >= 2 && tape::biased(2, 350) == 1 {
                        Some(SecondChunk {
                            at: 1 + tape::choose(items.len() as u32 - 1) as usize,
                            delay_ms: [0, 50, 400, 900][tape::biased(4, 600) as usize],
                            flag_timed: if tape::biased(2, 300) == 1 { !flag } else { flag },
                        })
                    } else {
                        None
                    };
                    CtlOp::Write { timed: t, flag_timed: flag, items, second }
                }
                _ => {
                    let (t, flag) = timed(tape::biased(2, 400) == 1);
                    let n = 1 + tape::biased(2, 150) as usize;
                    let items = (0..n)
                        .map(|i| {
                            let mut p = gen_path(&comp, 1);
                            if p.cl.is_none() || p.leaf.is_none() {
                                if tape::biased(4, 100) != 0 {
                                    let e = &comp.endpoints[0];
                                    p.cl = Some(e.clusters[0].id);
                                    p.leaf = Some(0);
                                }
                            }
                            (p, 0x8000_0000 | ((op_id as u32) << 8) | i as u32)
                        })
                        .collect();
                    CtlOp::Invoke { timed: t, flag_timed: flag, items }
                }
            };
            list.push(CtlStep {
                op_id,
                pair: pi,
                op,
                status_delay_ms: [0, 0, 5, 80][tape::biased(4, 300) as usize],
                fail_after_chunks: None,
            });
            op_id += 1;
        }
        controllers[pair.ctl_node - 1].scripts.push(list);
    }

    let dev_handlers = if knobs.faults { 2 + tape::biased(3, 400) as usize } else { pairs.len() + 1 + tape::biased(2, 300) as usize };
    ImCfg {
        comp,
        pairs,
        replant: false,
        dev_script,
        dev_handlers,
        suppress_startup_event: true,
        controllers,
        net: if knobs.faults { faulty_net() } else { benign_net() },
        sched: sched(knobs.sched, 400 * SEC),
        calm_at_us: None,
        limit_us: 300 * SEC,
        end_when_done: true,
        restarts: Vec::new(),
    }
}

// ---------------------------------------------------------------------------------------------
// Oracles
// ---------------------------------------------------------------------------------------------

/// The step of the configuration with the given op id
fn step_of(cfg: &ImCfg, op: u16) -> Option<&CtlStep> {
    cfg.controllers
        .iter()
        .flat_map(|c| c.scripts.iter().flat_map(|l| l.iter()))
        .find(|s| s.op_id == op && !matches!(s.op, CtlOp::Sleep { .. } | CtlOp::WaitCalm { .. }))
}

fn kind_of(comp: &Composition, ep: u16, cl: u32, attr: u32) -> Option<&AKind> {
    comp.cluster(ep, cl)
        .and_then(|c| c.attrs.iter().find(|a| a.id == attr))
        .map(|a| &a.kind)
}

fn invalid_wildcard(paths: &[PathSpec]) -> bool {
    paths
        .iter()
        .any(|p| p.cl.is_none() && matches!(p.leaf, Some(l) if !(0xfff8..=0xffff).contains(&l)))
}

/// The world as of a point in the log (composition / ACL changes applied so far)
fn world_at<'a>(run: &'a ImRun, root: &'a RootMeta, log_idx: usize) -> World<'a> {
    let mut w = World::initial(&run.cfg, root);
    for e in &run.log[..log_idx] {
        match &e.kind {
            ImKind::Enabled { ep, on } => {
                if let Some(i) = run.cfg.comp.endpoints.iter().position(|x| x.id == *ep) {
                    w.enabled[i] = *on;
                }
            }
            ImKind::AclRemoved { fab, index } => w.remove_acl(*fab, *index),
            _ => {}
        }
    }
    w
}


/// Log positions at which the world (composition / ACL) differs within a span: the start, and
/// right after every change
fn world_points(run: &ImRun, span: (usize, usize)) -> Vec<usize> {
    let mut v = vec![span.0];
    for i in span.0..span.1.min(run.log.len()) {
        if matches!(run.log[i].kind, ImKind::Enabled { .. } | ImKind::AclRemoved { .. }) {
            v.push(i + 1);
        }
    }
    v
}

/// Log indices of start and end of an op
fn op_span(run: &ImRun, op: u16) -> (usize, usize) {
    let mut s = 0;
    let mut e = run.log.len();
    for (i, ev) in run.log.iter().enumerate() {
        match &ev.kind {
            ImKind::OpStart { op: o } if *o == op => s = i,
            ImKind::OpEnd { op: o, .. } if *o == op => e = i,
            _ => {}
        }
    }
    (s, e)
}

/// Events the device had emitted before log position `idx`: (ep, cl, event, number, marker)
fn emitted_before(run: &ImRun, idx: usize) -> Vec<(u16, u32, u32, u64, u32)> {
    run.log[..idx]
        .iter()
        .filter_map(|e| match &e.kind {
            ImKind::Emit { ep, cl, event, marker, number: Some(n) } => Some((*ep, *cl, *event, *n, *marker)),
            _ => None,
        })
        .collect()
}

pub struct ReadCheck<'a> {
    pub what: String,
    pub req: Requester,
    pub attrs: &'a [PathSpec],
    pub events: &'a [PathSpec],
    pub dv_filters: &'a [(u16, u32, u32)],
    pub event_min: Option<u64>,
    /// The interaction ran to its end
    pub complete: bool,
    pub expect_sub_id: bool,
}

/// Checks the chunks of one answer (read, priming) against the model
#[allow(clippy::too_many_arguments)]
pub fn check_answer(
    run: &ImRun,
    root: &RootMeta,
    rc: &ReadCheck<'_>,
    chunks_raw: &[(u64, u8, Vec<u8>)],
    span: (usize, usize),
    static_world: bool,
    out: &mut Outcome,
) {
    let what = &rc.what;
    let reports: Vec<&(u64, u8, Vec<u8>)> = chunks_raw.iter().filter(|(_, o, _)| *o == OP_REPORT).collect();
    let mut chunks = Vec::new();
    for (i, (_, _, pl)) in reports.iter().enumerate() {
        match parse_report(pl) {
            Ok(c) => chunks.push(c),
            Err(e) => {
                out.violate(
                    "chunk-malformed",
                    format!("{what}: chunk {i} ({} bytes) is not a well-formed ReportData: {e}", pl.len()),
                );
                return;
            }
        }
    }
    out.count("answers_checked", 1);
    out.count("chunks_checked", chunks.len() as u64);
    if chunks.len() > 1 {
        out.count("answers_multi_chunk", 1);
    }
    // Flags
    for (i, c) in chunks.iter().enumerate() {
        let last = i + 1 == chunks.len();
        if !last && !c.more {
            out.violate(
                "chunk-flags",
                format!("{what}: chunk {i} of {} lacks MoreChunkedMessages but the answer went on", chunks.len()),
            );
        }
        if last && rc.complete && c.more {
            out.violate("chunk-flags", format!("{what}: the last chunk carries MoreChunkedMessages"));
        }
        if c.more && c.suppress {
            out.violate("chunk-flags", format!("{what}: chunk {i} has MoreChunkedMessages and SuppressResponse"));
        }
        if rc.expect_sub_id != c.sub_id.is_some() {
            out.violate(
                "chunk-malformed",
                format!("{what}: chunk {i} subscription id present = {}", c.sub_id.is_some()),
            );
        }
    }
    let re = reassemble(&chunks);
    for e in &re.errors {
        out.violate("list-reassembly", format!("{what}: {e}"));
    }

    // Expectation: in a world which does not change, exact; otherwise bracketed by the worlds at
    // the start and at the end of the interaction
    let w0 = world_at(run, root, span.0);
    let dv = |ep: u16, cl: u32| -> bool {
        rc.dv_filters.iter().any(|(e, c, v)| {
            *e == ep && *c == cl && {
                let ei = run.cfg.comp.endpoints.iter().position(|x| x.id == ep);
                let ci = ei.and_then(|ei| run.cfg.comp.endpoints[ei].clusters.iter().position(|x| x.id == cl));
                match (ei, ci) {
                    (Some(ei), Some(ci)) => *v == 0x1000 * (ei as u32 + 1) + 0x100 * ci as u32 + 1,
                    _ => false,
                }
            }
        })
    };
    let exp0 = expect_read(&w0, &rc.req, rc.attrs, &dv);
    let data_of = |exp: &[Exp]| -> BTreeMap<(u16, u32, u32), u32> {
        counts(exp.iter().filter_map(|e| match e {
            Exp::Data { ep, cl, attr } => Some((*ep, *cl, *attr)),
            _ => None,
        }))
    };
    // Per attribute: the smallest and the largest number of selections over all worlds which
    // existed while the answer was produced
    let points = world_points(run, span);
    let mut d_lo = data_of(&exp0);
    let mut d_hi = d_lo.clone();
    for pt in points.iter().skip(1) {
        let w = world_at(run, root, *pt);
        let d = data_of(&expect_read(&w, &rc.req, rc.attrs, &dv));
        for (k, v) in d_lo.iter_mut() {
            *v = (*v).min(*d.get(k).unwrap_or(&0));
        }
        for (k, v) in &d {
            let e = d_hi.entry(*k).or_insert(0);
            *e = (*e).max(*v);
        }
    }
    let (d0, d1) = (d_lo, d_hi);
    let got = counts(re.data.iter().map(|(p, _, _)| *p));
    let changed_world = points.len() > 1 || !static_world;

    // Upper bound: never more than the larger of the two expectations (never something which was
    // not selectable at any time)
    for (p, n) in &got {
        let hi = *d1.get(p).unwrap_or(&0);
        if *n > hi {
            let oracle = if hi == 0 { "discloses-unselected" } else { "value-duplicated" };
            out.violate(
                oracle,
                format!(
                    "{what}: attribute {:#x?} reported {n} time(s), the request selects it {hi} time(s) for requester {:?}",
                    p, rc.req
                ),
            );
        }
    }
    // Lower bound: complete answers carry everything selected (in both worlds)
    if rc.complete {
        for (p, n0) in &d0 {
            let lo = *n0;
            let n = *got.get(p).unwrap_or(&0);
            if n < lo {
                out.violate(
                    "value-missing",
                    format!("{what}: attribute {:#x?} reported {n} time(s), selected {lo} time(s)", p),
                );
            }
        }
    }
    // Values of synthetic attributes
    for (p, val, _) in &re.data {
        if let Some(kind) = kind_of(&run.cfg.comp, p.0, p.1, p.2) {
            let partial_list = !rc.complete
                && matches!((kind, val), (AKind::List { items, item_len }, Val::Array(m)) if m.len() < *items
                    && m.iter().enumerate().all(|(i, (_, v))| matches!(v, Val::Bytes(b) if b.len() >= 6
                        && *b == octets_value(p.0, p.1, p.2, u32::from_le_bytes([b[0], b[1], b[2], b[3]]), i as u16, *item_len))));
            let ok = if partial_list {
                // The answer was cut short while this list was being streamed
                true
            } else if changed_world {
                // Every element must carry a version the attribute really had
                let max_v = *run.final_values.get(p).unwrap_or(&1);
                match (kind, val) {
                    (AKind::List { items, item_len }, Val::Array(m)) => {
                        m.len() == *items
                            && m.iter().enumerate().all(|(i, (_, v))| match v {
                                Val::Bytes(b) if b.len() >= 6 => {
                                    let ver = u32::from_le_bytes([b[0], b[1], b[2], b[3]]);
                                    ver >= 1
                                        && (ver <= max_v || max_v & 0x8000_0000 != 0)
                                        && *b == octets_value(p.0, p.1, p.2, ver, i as u16, *item_len)
                                }
                                _ => false,
                            })
                    }
                    _ => match version_of(kind, val) {
                        Some(ver) => *val == expected_val(kind, p.0, p.1, p.2, ver),
                        None => matches!(kind, AKind::Octets(l) if *l < 4) || matches!(kind, AKind::List { items: 0, .. }),
                    },
                }
            } else {
                let ver = value_at(run, *p, span.0);
                *val == expected_val(kind, p.0, p.1, p.2, ver)
            };
            if !ok {
                out.violate(
                    "value-wrong",
                    format!("{what}: attribute {:#x?} ({:?}) reported as {:?}", p, kind, val),
                );
            }
        }
    }
    // Statuses for concrete paths
    if rc.complete && !changed_world {
        let mut want: Vec<(PathSpec, Vec<u8>)> = exp0
            .iter()
            .filter_map(|e| match e {
                Exp::Status { path, any_of } => Some((path.clone(), any_of.clone())),
                _ => None,
            })
            .collect();
        for (ep, cl, attr, status) in &re.statuses {
            let pos = want.iter().position(|(p, codes)| {
                p.ep == *ep && p.cl == *cl && p.leaf == *attr && codes.contains(status)
            });
            match pos {
                Some(i) => {
                    want.remove(i);
                }
                None => out.violate(
                    "status-wrong",
                    format!(
                        "{what}: status {status:#x} for path {:x?}/{:x?}/{:x?} is not what the request calls for (requester {:?})",
                        ep, cl, attr, rc.req
                    ),
                ),
            }
        }
        for (p, codes) in want {
            out.violate(
                "status-missing",
                format!("{what}: no status out of {:x?} for the concrete path {:x?}", codes, p),
            );
        }
    }
    // Events
    if !rc.events.is_empty() || !re.events.is_empty() {
        let emitted0 = emitted_before(run, span.0);
        let emitted1 = emitted_before(run, span.1);
        let selectable = |w: &World<'_>, (ep, cl, ev, num, _): &(u16, u32, u32, u64, u32)| -> bool {
            if matches!(rc.event_min, Some(m) if *num < m) {
                return false;
            }
            if !rc.events.iter().any(|p| p.matches(*ep, *cl, *ev)) {
                return false;
            }
            let Some(c) = w.comp.cluster(*ep, *cl) else {
                return false;
            };
            if !w.has_endpoint(*ep) {
                return false;
            }
            let Some(spec) = c.events.iter().find(|x| x.id == *ev) else {
                return false;
            };
            permitted(spec.access, false, w.granted(&rc.req, *ep, *cl))
        };
        let mut seen: BTreeSet<u64> = BTreeSet::new();
        let mut last_num = None;
        for ((ep, cl, ev), num, data) in &re.events {
            if *ep == 0 {
                continue;
            }
            if !seen.insert(*num) {
                out.violate("event-duplicated", format!("{what}: event number {num} reported twice"));
            }
            if matches!(last_num, Some(l) if l >= *num) {
                out.violate("event-order", format!("{what}: event number {num} after {:?}", last_num));
            }
            last_num = Some(*num);
            let known = emitted1.iter().find(|e| e.3 == *num);
            match known {
                None => out.violate("event-unknown", format!("{what}: event number {num} was never emitted")),
                Some(e) => {
                    let marker = data.as_ref().and_then(|d| d.ctx(0)).and_then(|x| x.uint());
                    if (e.0, e.1, e.2) != (*ep, *cl, *ev) || marker != Some(e.4 as u64) {
                        out.violate(
                            "event-wrong",
                            format!("{what}: event {num} reported as {:x?} marker {:?}, emitted as {:x?}", (ep, cl, ev), marker, e),
                        );
                    }
                    if !points.iter().any(|pt| selectable(&world_at(run, root, *pt), e)) {
                        out.violate(
                            "discloses-unselected",
                            format!("{what}: event {num} {:x?} is not selected / permitted for {:?}", (ep, cl, ev), rc.req),
                        );
                    }
                }
            }
        }
        if rc.complete {
            for e in &emitted0 {
                if !seen.contains(&e.3) && points.iter().all(|pt| selectable(&world_at(run, root, *pt), e)) {
                    out.violate(
                        "event-missing",
                        format!("{what}: event number {} {:x?} selected but not reported", e.3, (e.0, e.1, e.2)),
                    );
                }
            }
        }
        out.count("events_checked", re.events.len() as u64);
    }
    out.count("values_checked", re.data.len() as u64);
    if re.data.iter().any(|(_, v, _)| matches!(v, Val::Array(m) if m.len() > 1)) {
        out.count("answers_with_streamed_list", 1);
    }
}

/// Value of a synthetic attribute as of log position `idx`
fn value_at(run: &ImRun, p: (u16, u32, u32), idx: usize) -> u32 {
    let mut v = 1;
    for e in &run.log[..idx] {
        match &e.kind {
            ImKind::Change { ep, cl, attr, version } if (*ep, *cl, *attr) == p => v = *version,
            ImKind::Call(c) if c.kind == CallKind::Write && (c.ep, c.cl, c.leaf) == p && c.result == OK => {
                if let Some(x) = c.value {
                    v = x;
                }
            }
            _ => {}
        }
    }
    v
}

/// Read and subscribe-priming answers of every op
pub fn check_reads(run: &ImRun, root: &RootMeta, static_world: bool, out: &mut Outcome) {
    for (op, rec) in &run.ops {
        let Some(step) = step_of(&run.cfg, *op) else {
            continue;
        };
        let req = requester(&run.cfg, step.pair);
        let complete = rec.result == Some(OK);
        let span = op_span(run, *op);
        // Writes by others during the answer make the values a moving target
        let writes_inside = run.log[span.0..span.1]
            .iter()
            .any(|e| matches!(&e.kind, ImKind::Call(c) if c.kind == CallKind::Write) || matches!(e.kind, ImKind::Change { .. }));
        let static_world = static_world && !writes_inside;
        match &step.op {
            CtlOp::Read { attrs, events, dv_filters, event_min, .. } => {
                if invalid_wildcard(attrs) {
                    let refused = rec.rx.iter().all(|(_, o, _)| *o == OP_STATUS);
                    if !refused {
                        out.violate(
                            "invalid-path-served",
                            format!("op {op}: a request with a wildcard cluster and a concrete non-global attribute was answered with data"),
                        );
                    }
                    continue;
                }
                let rc = ReadCheck {
                    what: format!("op {op} (read)"),
                    req,
                    attrs,
                    events,
                    dv_filters,
                    event_min: *event_min,
                    complete,
                    expect_sub_id: false,
                };
                check_answer(run, root, &rc, &rec.rx, span, static_world, out);
            }
            CtlOp::Subscribe { attrs, events, .. } => {
                if invalid_wildcard(attrs) {
                    continue;
                }
                let rc = ReadCheck {
                    what: format!("op {op} (subscribe priming)"),
                    req,
                    attrs,
                    events,
                    dv_filters: &[],
                    event_min: None,
                    complete,
                    expect_sub_id: true,
                };
                check_answer(run, root, &rc, &rec.rx, span, static_world, out);
            }
            _ => {}
        }
    }
}

/// Writes and invokes: statuses against the model, and the handler's side effects
pub fn check_actions(run: &ImRun, root: &RootMeta, out: &mut Outcome) {
    // Handler effects by (op, item)
    let mut effects: BTreeMap<(u16, usize), Vec<(usize, &Call)>> = BTreeMap::new();
    for (i, e) in run.log.iter().enumerate() {
        if let ImKind::Call(c) = &e.kind {
            if c.kind == CallKind::Read {
                continue;
            }
            match c.value {
                Some(v) if v & 0x8000_0000 != 0 => {
                    effects
                        .entry((((v >> 8) & 0xffff) as u16, (v & 0xff) as usize))
                        .or_default()
                        .push((i, c));
                }
                _ => out.violate(
                    "effect-unattributable",
                    format!("handler {:?} call on {:x?} with value {:?} belongs to no request", c.kind, (c.ep, c.cl, c.leaf), c.value),
                ),
            }
        }
    }
    let mut seen_keys = BTreeSet::new();
    for (op, rec) in &run.ops {
        let Some(step) = step_of(&run.cfg, *op) else {
            continue;
        };
        let (timed, flag, items, command, second) = match &step.op {
            CtlOp::Write { timed, flag_timed, items, second } => (timed, *flag_timed, items, false, second.clone()),
            CtlOp::Invoke { timed, flag_timed, items } => (timed, *flag_timed, items, true, None),
            _ => continue,
        };
        if second.is_some() {
            out.count("writes_in_two_chunks_checked", 1);
        }
        out.count(if command { "invokes_checked" } else { "writes_checked" }, 1);
        let req = requester(&run.cfg, step.pair);
        let span = op_span(run, *op);
        let w0 = world_at(run, root, span.0);
        let w1 = world_at(run, root, span.1);
        let same_world = w0.enabled == w1.enabled && w0.acl.len() == w1.acl.len();
        let complete = rec.result == Some(OK);

        // Request-level outcome of the timed handling
        // Some(true): timed and in time; Some(false): untimed; None: refused as a whole
        let (timed_state, refusal): (Option<bool>, Vec<u8>) = match (timed, flag) {
            (None, false) => (Some(false), vec![]),
            (None, true) => (None, vec![ST_TIMED_MISMATCH, ST_NEEDS_TIMED]),
            (Some(_), false) => (None, vec![ST_TIMED_MISMATCH]),
            (Some(t), true) => {
                if t.delay_ms >= t.timeout_ms as u32 {
                    (None, vec![ST_TIMEOUT])
                } else {
                    (Some(true), vec![])
                }
            }
        };
        // The device starts its window when it handles the TimedRequest (not before the controller
        // sent it) and handles the action before the controller sees the answer: if the answer
        // arrived within the timeout counted from the sending of the TimedRequest, the action was
        // in time for certain. Otherwise the device's own queueing may have eaten the window.
        let timed_tx = run.log[span.0..span.1].iter().find_map(|e| match &e.kind {
            ImKind::Tx { op: o, opcode, .. } if *o == *op && *opcode == OP_TIMED => Some(e.time),
            _ => None,
        });
        let answer_rx = rec
            .rx
            .iter()
            .filter(|(_, o, _)| *o == OP_WRITE_RESP || *o == OP_INVOKE_RESP || *o == OP_STATUS)
            .map(|(t, _, _)| *t)
            .last();
        let window_certain = match timed {
            Some(t) if flag => {
                t.delay_ms >= t.timeout_ms as u32
                    || matches!((timed_tx, answer_rx), (Some(a), Some(b)) if b <= a + t.timeout_ms as u64 * 1000)
            }
            _ => true,
        };
        if timed.is_some() && timed_state == Some(true) {
            out.count("timed_actions_in_window", 1);
        }
        if refusal.contains(&ST_TIMEOUT) {
            out.count("timed_actions_expired", 1);
        }

        // The answer
        let answer = rec
            .rx
            .iter()
            .find(|(_, o, _)| *o == OP_WRITE_RESP || *o == OP_INVOKE_RESP)
            .or_else(|| rec.rx.iter().rev().find(|(_, o, _)| *o == OP_STATUS && rec.timed_ack.is_none()))
            .or_else(|| {
                // With a timed prelude the first status is the answer to the TimedRequest
                rec.rx.iter().filter(|(_, o, _)| *o == OP_STATUS).nth(1)
            });
        let mut statuses: Vec<((Option<u16>, Option<u32>, Option<u32>), u8, Option<u32>)> = Vec::new();
        let mut whole_status = None;
        if let Some((_, opc, pl)) = answer {
            match *opc {
                OP_WRITE_RESP => match parse_write_response(pl) {
                    Ok(v) => statuses = v.into_iter().map(|(p, s)| (p, s, None)).collect(),
                    Err(e) => out.violate("response-malformed", format!("op {op}: WriteResponse: {e}")),
                },
                OP_INVOKE_RESP => match parse_invoke_response(pl) {
                    Ok(v) => {
                        statuses = v
                            .into_iter()
                            .map(|it| match it {
                                InvItem::Command(ep, cl, cmd, arg) => ((Some(ep), Some(cl), Some(cmd)), 0xff, arg),
                                InvItem::Status(ep, cl, cmd, s) => ((ep, cl, cmd), s, None),
                            })
                            .collect()
                    }
                    Err(e) => out.violate("response-malformed", format!("op {op}: InvokeResponse: {e}")),
                },
                _ => whole_status = parse_status(pl).ok(),
            }
        }

        if whole_status == Some(0x9c) {
            // Busy: not served at all
            out.count("actions_answered_busy", 1);
            for (idx, _) in items.iter().enumerate() {
                seen_keys.insert((*op, idx));
                if effects.contains_key(&(*op, idx)) {
                    out.violate("effect-not-permitted", format!("op {op} item {idx}: answered Busy but the handler ran"));
                }
            }
            continue;
        }
        let multi_invoke = command && items.len() > 1;
        for (idx, (p, _)) in items.iter().enumerate() {
            seen_keys.insert((*op, idx));
            let eff = effects.get(&(*op, idx)).cloned().unwrap_or_default();
            let exp_t = |w: &World<'_>, t: bool| expect_action(w, &req, p, command, t);
            // Possible expectations (the timed window may be uncertain; the world may have changed)
            let mut exps: Vec<ActExp> = Vec::new();
            // An element of the second chunk of a write: judged by its effects only. It may act
            // as an untimed element if no timed action preceded and its chunk is not flagged, as
            // a timed one if a timed action preceded (the window is checked on the effect's time
            // below), and not at all if its chunk claims a timed interaction that never was.
            // (Whether a flag that differs between the chunks refuses the rest is left open.)
            let in_second = matches!(&second, Some(sc) if idx >= sc.at);
            let timed_state = if in_second {
                let f2 = second.as_ref().map(|sc| sc.flag_timed).unwrap_or(flag);
                match (timed, f2) {
                    (None, false) => Some(false),
                    (None, true) => None,
                    (Some(_), _) => Some(true),
                }
            } else {
                timed_state
            };
            match timed_state {
                Some(t) => {
                    exps.push(exp_t(&w0, t));
                    if !same_world {
                        exps.push(exp_t(&w1, t));
                    }
                    for pt in world_points(run, span).iter().skip(1) {
                        let e = exp_t(&world_at(run, root, *pt), t);
                        if !exps.contains(&e) {
                            exps.push(e);
                        }
                    }
                    if !window_certain {
                        exps.push(ActExp::Refused { any_of: vec![ST_TIMEOUT] });
                    }
                }
                None => exps.push(ActExp::Refused { any_of: refusal.clone() }),
            }
            if multi_invoke {
                // More paths than the node supports per invoke: the whole request may be refused
                exps.push(ActExp::Refused { any_of: vec![ST_INVALID_ACTION] });
            }
            let allowed_eps: BTreeSet<u16> = exps
                .iter()
                .flat_map(|e| match e {
                    ActExp::Effect { eps } => eps.clone(),
                    _ => vec![],
                })
                .collect();
            // Effects: only where some expectation allows them, at most once per endpoint
            let mut per_ep: BTreeMap<u16, u32> = BTreeMap::new();
            for (_, c) in &eff {
                *per_ep.entry(c.ep).or_default() += 1;
                if !allowed_eps.contains(&c.ep) || Some(c.cl) != p.cl || Some(c.leaf) != p.leaf {
                    out.violate(
                        "effect-not-permitted",
                        format!(
                            "op {op} item {idx}: handler {:?} ran on {:x?} for requester {:?} (timed {:?}/{flag}); the model allows {:?}",
                            c.kind, (c.ep, c.cl, c.leaf), req, timed, exps
                        ),
                    );
                }
            }
            for (ep, n) in &per_ep {
                if *n > 1 {
                    out.violate(
                        "effect-repeated",
                        format!("op {op} item {idx}: handler ran {n} times on endpoint {ep} for one request element"),
                    );
                }
            }
            // A timed-only element must not act after its window (bound known to the controller)
            if let (Some(t), Some(ack)) = (timed, rec.timed_ack) {
                for (li, c) in &eff {
                    let acc = run.cfg.comp.cluster(c.ep, c.cl).and_then(|cl| {
                        if command {
                            cl.cmds.iter().find(|k| k.id == c.leaf).map(|k| k.access)
                        } else {
                            cl.attrs.iter().find(|k| k.id == c.leaf).map(|k| k.access)
                        }
                    });
                    let when = run.log[*li].time;
                    if when > ack + t.timeout_ms as u64 * 1000 {
                        out.violate(
                            "timed-window-ignored",
                            format!(
                                "op {op} item {idx}: element with access {:x?} acted at t={when}, the timed window ({} ms) was over at t={} at the latest",
                                acc, t.timeout_ms, ack + t.timeout_ms as u64 * 1000
                            ),
                        );
                    }
                }
            }
            if !complete || second.is_some() {
                continue;
            }
            // Complete interaction: the answer must fit one of the expectations
            let mine: Vec<(u8, Option<u32>)> = statuses
                .iter()
                .filter(|((ep, cl, leaf), _, _)| {
                    (p.ep.is_none() || *ep == p.ep)
                        && *cl == p.cl
                        && (*leaf == p.leaf || (command && matches!((leaf, p.leaf), (Some(a), Some(b)) if *a == b + 0x100)))
                })
                .map(|(_, s, a)| (*s, *a))
                .collect();
            let fits = exps.iter().any(|e| match e {
                ActExp::Effect { eps } => {
                    let effect_ok = eps.iter().all(|ep| per_ep.get(ep) == Some(&1)) && per_ep.len() == eps.len();
                    let handler_failed = eff.iter().any(|(_, c)| c.result != OK);
                    let status_ok = whole_status.is_none()
                        && (handler_failed
                            || (mine.iter().filter(|(s, _)| *s == ST_SUCCESS || *s == 0xff).count() >= 1
                                && mine.iter().all(|(s, _)| *s == ST_SUCCESS || *s == 0xff)));
                    effect_ok && status_ok
                }
                ActExp::Refused { any_of } => {
                    per_ep.is_empty()
                        && match whole_status {
                            Some(s) => any_of.contains(&s) || (timed_state.is_none() && refusal.contains(&s)),
                            None => {
                                if any_of.is_empty() {
                                    mine.iter().all(|(s, _)| *s != ST_SUCCESS && *s != 0xff) || mine.is_empty()
                                } else {
                                    !mine.is_empty() && mine.iter().all(|(s, _)| any_of.contains(s))
                                }
                            }
                        }
                }
            });
            // Several items may share a path; the per-item matching above is then ambiguous
            let shared = items.iter().filter(|(q, _)| q == p).count() > 1
                || items.iter().any(|(q, _)| {
                    q != p
                        && q.cl == p.cl
                        && (q.leaf == p.leaf || (command && matches!((q.leaf, p.leaf), (Some(a), Some(b)) if a == b + 0x100 || b == a + 0x100)))
                        && (q.ep.is_none() || p.ep.is_none())
                });
            if !fits && !shared {
                out.violate(
                    "action-outcome",
                    format!(
                        "op {op} item {idx} ({} {:x?}, requester {:?}, timed {:?} flag {flag}): answer {:x?} whole-status {:x?} effects {:?}; the model allows {:?}",
                        if command { "invoke" } else { "write" }, p, req, timed, mine, whole_status, per_ep, exps
                    ),
                );
            }
            // Echo of the argument
            for (s, arg) in &mine {
                if *s == 0xff {
                    let want = 0x8000_0000 | ((*op as u32) << 8) | idx as u32;
                    if *arg != Some(want) && !shared {
                        out.violate("response-wrong", format!("op {op} item {idx}: command response echoes {:x?}, sent {want:#x}", arg));
                    }
                }
            }
        }
    }
    for (k, v) in &effects {
        if !seen_keys.contains(k) {
            out.violate(
                "effect-unattributable",
                format!("handler effects {:?} carry the value of request element {:?} which does not exist", v.len(), k),
            );
        }
    }
}

/// Datagrams of the device never exceed what the transport may carry
pub fn check_sizes(run: &ImRun, out: &mut Outcome) {
    for d in &run.dgrams {
        if d.src == 0 && d.bytes.len() > 1280 - 48 {
            out.violate(
                "message-exceeds-transport-maximum",
                format!("device datagram {} has {} bytes", d.id, d.bytes.len()),
            );
        }
    }
}

/// An answer which never ends: an op still running when the step bound was hit
pub fn check_termination(run: &ImRun, out: &mut Outcome) {
    if matches!(run.stop, crate::kernel::StopReason::MaxPolls) {
        for (op, rec) in &run.ops {
            if rec.end.is_none() {
                let n = rec.rx.len();
                out.violate(
                    "answer-does-not-terminate",
                    format!("op {op} still running at the step bound after {n} received messages"),
                );
            }
        }
    }
}

/// Without faults (no loss, no session loss, no restart, a prompt client) the device answers every
/// read and subscribe request to the end: a report, or a status which refuses the request. A
/// client that ran into a timeout was abandoned half-way.
pub fn check_abandoned(run: &ImRun, out: &mut Outcome) {
    use rs_matter::error::ErrorCode;
    for (op, rec) in &run.ops {
        let Some(step) = step_of(&run.cfg, *op) else {
            continue;
        };
        if !matches!(step.op, CtlOp::Read { .. } | CtlOp::Subscribe { .. }) || step.fail_after_chunks.is_some() || step.status_delay_ms > 100 {
            continue;
        }
        let Some(r) = rec.result else {
            continue;
        };
        out.count("interactions_checked_for_completion", 1);
        if r != OK && r != ErrorCode::Busy as u16 && r != ErrorCode::Invalid as u16 {
            out.violate(
                "answer-abandoned",
                format!(
                    "op {op} ({}): no fault was injected, yet the interaction ended with error code {r:#x} at the client after {} received messages (the device stopped answering)",
                    if matches!(step.op, CtlOp::Read { .. }) { "read" } else { "subscribe" },
                    rec.rx.len()
                ),
            );
        }
    }
}

pub fn common_counters(run: &ImRun, out: &mut Outcome) {
    for (k, v) in &run.fired {
        out.count(&format!("fault_{k}"), *v);
    }
    out.count("net_sent", run.net.sent);
    out.count("net_delivered", run.net.delivered);
    out.count("net_dropped", run.net.dropped);
    out.count("net_duplicated_copies", run.net.duplicated);
    out.count("sched_nonfifo_choices", run.exec.nonfifo);
    out.count("sched_bursts", run.exec.bursts);
    out.count("polls", run.exec.polls);
    out.count("ops_started", run.ops.len() as u64);
    out.count("ops_completed_ok", run.ops.values().filter(|o| o.result == Some(OK)).count() as u64);
    out.count("report_exchanges_received", run.reports.len() as u64);
    out.count("runs_with_root_endpoint", run.cfg.comp.with_root as u64);
    out.count("device_restarts", (run.device_incarnations - 1) as u64);
    out.count("runs_hit_bound", matches!(run.stop, crate::kernel::StopReason::MaxPolls) as u64);
    out.count(
        "composition_changes",
        run.log
            .iter()
            .filter(|e| matches!(e.kind, ImKind::Enabled { .. } | ImKind::AclRemoved { .. }))
            .count() as u64,
    );
    out.count(
        "session_replants",
        run.log.iter().filter(|e| matches!(e.kind, ImKind::SessionReplanted { .. })).count() as u64,
    );
    out.sim_time_us = run.end_time;
    let faults: u64 = run.fired.values().sum();
    let work = run.ops.values().any(|o| !o.rx.is_empty());
    out.nontrivial = work && (faults > 0 || run.exec.nonfifo + run.exec.bursts > 0 || run.ops.values().any(|o| o.rx.len() > 2));
    let mut sig: u64 = 0xcbf2_9ce4_8422_2325;
    let mut mix = |x: u64| {
        sig ^= x;
        sig = sig.wrapping_mul(0x0000_0100_0000_01B3);
    };
    for o in run.ops.values() {
        mix(o.rx.len() as u64);
        mix(o.result.unwrap_or(0) as u64);
    }
    for r in &run.reports {
        mix(r.chunks.len() as u64 + 100);
    }
    if let Some(s) = &run.subs {
        mix(s.subs.len() as u64);
        mix(s.pending_changes as u64);
    }
    out.state_sigs.push(sig);
}

pub fn sample_of(run: &ImRun) -> Value {
    json!({
        "with_root": run.cfg.comp.with_root,
        "endpoints": run.cfg.comp.endpoints.iter().map(|e| json!({
            "id": e.id,
            "clusters": e.clusters.iter().map(|c| json!({
                "id": format!("{:#x}", c.id),
                "attrs": c.attrs.iter().map(|a| format!("{}:{:?}:{:#x}", a.id, a.kind, a.access)).collect::<Vec<_>>(),
                "cmds": c.cmds.iter().map(|a| format!("{}:{:#x}:{}", a.id, a.access, a.resp)).collect::<Vec<_>>(),
                "events": c.events.iter().map(|a| format!("{}:{:#x}", a.id, a.access)).collect::<Vec<_>>(),
            })).collect::<Vec<_>>(),
        })).collect::<Vec<_>>(),
        "acl": run.cfg.comp.acl.iter().map(|a| format!("{:?}", a)).collect::<Vec<_>>(),
        "pairs": run.cfg.pairs.iter().map(|p| format!("{:?} fab{} node{}", p.kind, p.dev_fab, p.ctl_node)).collect::<Vec<_>>(),
        "ops": run.cfg.controllers.iter().flat_map(|c| c.scripts.iter().flat_map(|l| l.iter().map(|s| format!("{:?}", s)))).take(12).collect::<Vec<_>>(),
        "device_script": run.cfg.dev_script.iter().take(12).map(|s| format!("{:?}", s)).collect::<Vec<_>>(),
        "net": format!("{:?}", run.cfg.net),
        "datagrams": run.dgrams.len(),
        "simulated_ms": run.end_time / 1000,
    })
}

pub fn dump(run: &ImRun) {
    if std::env::var_os("VERIF_DUMP").is_none() {
        return;
    }
    eprintln!("CFG comp={:#?}", run.cfg.comp);
    eprintln!("CFG pairs={:?}", run.cfg.pairs);
    for c in &run.cfg.controllers {
        for l in &c.scripts {
            for s in l {
                eprintln!("CFG step {:?}", s);
            }
        }
        eprintln!("CFG report behaviour {:?}", c.report_behaviour);
    }
    for s in &run.cfg.dev_script {
        eprintln!("CFG dev {:?}", s);
    }
    eprintln!("CFG net={:?} calm_at={:?} limit={} restarts={:?}", run.cfg.net, run.cfg.calm_at_us, run.cfg.limit_us, run.cfg.restarts);
    for e in &run.log {
        match &e.kind {
            ImKind::Rx { op, hseq, opcode, payload, .. } => {
                let dec = crate::tlvx::decode(payload).map(|(_, v)| format!("{:?}", v)).unwrap_or_else(|e| format!("!! {e}"));
                let dec = if dec.len() > 600 { format!("{}...", &dec[..600]) } else { dec };
                eprintln!("LOG t={} n{} Rx op={} hseq={} opcode={} len={} {}", e.time, e.node, op, hseq, opcode, payload.len(), dec);
            }
            k => eprintln!("LOG t={} n{} {:?}", e.time, e.node, k),
        }
    }
    for d in &run.dgrams {
        eprintln!(
            "DG id={} t={} {}->{:?} len={} copies={} plain={:?} proto={:?} consumed={:?}",
            d.id,
            d.time,
            d.src,
            d.dst,
            d.bytes.len(),
            d.copies,
            d.plain.as_ref().map(|p| (p.sess_id, p.ctr)),
            d.proto.as_ref().map(|p| format!(
                "xf={:#x} op={:#x} exch={} proto={:#x} ack={:?} plen={}",
                p.exch_flags, p.opcode, p.exch_id, p.proto_id, p.ack, p.payload.len()
            )),
            d.consumed
        );
    }
    for (t, s) in &run.subs_series {
        eprintln!("SUBS t={} {:?}", t, s);
    }
    eprintln!("SUBS final {:?}", run.subs);
    eprintln!("END t={} stop={:?} calm={:?}", run.end_time, run.stop, run.calm_time);
}

// ---------------------------------------------------------------------------------------------
// Scenarios
// ---------------------------------------------------------------------------------------------

#[derive(Clone, Copy, PartialEq, Eq)]
pub enum Which {
    C06,
    C14,
}

pub struct StaticScenario {
    pub which: Which,
    pub name: &'static str,
    pub knobs: ImKnobs,
}

impl Scenario for StaticScenario {
    fn property(&self) -> &'static str {
        match self.which {
            Which::C06 => "C06",
            Which::C14 => "C14",
        }
    }

    fn name(&self) -> &'static str {
        self.name
    }

    fn run(&self, seed: u64) -> Outcome {
        let cfg = gen_static(seed, &self.knobs);
        let run = drive(seed, cfg);
        let root = root_meta();
        let mut out = Outcome::default();
        common_counters(&run, &mut out);
        check_reads(&run, &root, !self.knobs.dynamic, &mut out);
        check_termination(&run, &mut out);
        if !self.knobs.faults && !self.knobs.sched && !self.knobs.dynamic {
            check_abandoned(&run, &mut out);
        }
        match self.which {
            Which::C06 => check_actions(&run, &root, &mut out),
            Which::C14 => check_sizes(&run, &mut out),
        }
        out.sample = Some(sample_of(&run));
        dump(&run);
        out
    }
}

const ASSUMPTIONS: &[&str] = &[
    "harness (executor, network, tape, TLV codec, reference model, oracles) is trusted",
    "the reference model encodes the Matter rules for path expansion, access control and timed interactions as read from the specification; where the specification leaves the status code open (absent element vs. no access) both are accepted",
    "sessions are planted through the public ReservedSession API (no PASE/CASE handshake); fabrics are table entries without certificates",
    "a single value is never larger than an empty chunk can hold (Matter bounds attribute sizes); larger values are outside the generator",
    "sampling, not enumeration: a clean batch is evidence proportional to the counts reported, not a proof",
];

pub fn defs() -> Vec<PropertyDef> {
    let chunk = ImKnobs { faults: false, sched: false, chunk_focus: true, access_focus: false, dynamic: false };
    let access = ImKnobs { faults: false, sched: false, chunk_focus: false, access_focus: true, dynamic: false };
    vec![
        PropertyDef {
            id: "C14",
            level: "exploration",
            families: vec![
                Family {
                    scenario: Box::new(StaticScenario { which: Which::C14, name: "chunks-fault-free", knobs: chunk }),
                    weight: 3,
                    fault_free: true,
                },
                Family {
                    scenario: Box::new(StaticScenario {
                        which: Which::C14,
                        name: "chunks-faults",
                        knobs: ImKnobs { faults: true, sched: true, ..chunk },
                    }),
                    weight: 3,
                    fault_free: false,
                },
                Family {
                    scenario: Box::new(StaticScenario {
                        which: Which::C14,
                        name: "chunks-mixed-access",
                        knobs: ImKnobs { sched: true, ..access },
                    }),
                    weight: 2,
                    fault_free: false,
                },
                Family {
                    scenario: Box::new(StaticScenario {
                        which: Which::C14,
                        name: "chunks-composition-changes",
                        knobs: ImKnobs { faults: true, sched: true, dynamic: true, ..chunk },
                    }),
                    weight: 2,
                    fault_free: false,
                },
            ],
            rule: "each run = one generated node composition (1-3 synthetic endpoints x 1-3 clusters x 1-6 attributes: u32, octet strings and lists of octet strings with sizes concentrated at the chunk boundary; optionally the real root endpoint), events emitted before the first request, 1-5 reads / subscribe primings per session with concrete and wildcard paths in any order with repeats, data-version and event-number filters, client-side delay before each StatusResponse; distinct = distinct trace hash; non-trivial = an answer of more than two messages, or a fault fired, or a non-FIFO scheduling decision",
            assumptions: ASSUMPTIONS.to_vec(),
            real: "rs-matter Interaction Model (read, subscribe priming, chunking, list streaming, event reporting), path expansion, access checks, exchange layer, MRP, transport; real system clusters of the root endpoint in part of the runs",
            stubbed: "application clusters (synthetic instrumented handler with generated metadata), controllers (raw exchanges with the harness's own TLV codec), UDP, clock, RNG; sessions planted",
            budget_s: (60, 600),
        },
        PropertyDef {
            id: "C06",
            level: "exploration",
            families: vec![
                Family {
                    scenario: Box::new(StaticScenario { which: Which::C06, name: "access-fault-free", knobs: access }),
                    weight: 3,
                    fault_free: true,
                },
                Family {
                    scenario: Box::new(StaticScenario {
                        which: Which::C06,
                        name: "access-faults",
                        knobs: ImKnobs { faults: true, sched: true, ..access },
                    }),
                    weight: 4,
                    fault_free: false,
                },
                Family {
                    scenario: Box::new(StaticScenario {
                        which: Which::C06,
                        name: "access-composition-changes",
                        knobs: ImKnobs { faults: true, sched: true, dynamic: true, ..access },
                    }),
                    weight: 3,
                    fault_free: false,
                },
            ],
            rule: "each run = one generated node composition with access declarations drawn per element (view/operate/manage/administer, write-only, timed-only, fabric-scoped), generated ACLs for two fabrics (subjects, endpoint/cluster targets), 1-3 requesters (CASE of either fabric, PASE) issuing 1-5 reads, subscribes, writes and invokes with concrete / wildcard / absent paths, with and without TimedRequest (in time, expired, mismatching flag); under faults: loss, duplication, delay of every message, endpoints switched off/on and ACL entries removed while answers are in flight; distinct = distinct trace hash; non-trivial as for C14",
            assumptions: ASSUMPTIONS.to_vec(),
            real: "rs-matter Interaction Model (read/write/invoke/timed/subscribe), path expansion with per-leaf access check, ACL evaluation, exchange layer, MRP (retransmitted requests), transport",
            stubbed: "application clusters (synthetic instrumented handler), controllers (raw exchanges), UDP, clock, RNG; sessions planted; ACL entries installed directly in the fabric table",
            budget_s: (60, 600),
        },
    ]
}

// ---------------------------------------------------------------------------------------------
// C13: subscriptions
// ---------------------------------------------------------------------------------------------

#[derive(Clone, Copy, Debug)]
pub struct SubKnobs {
    pub faults: bool,
    pub sched: bool,
    /// Subscribers misbehave (answer with failure, garbage, not at all, late)
    pub bad_subscribers: bool,
    /// Sessions are evicted on the device
    pub evictions: bool,
    /// Device restarts (persisted subscriptions are resumed)
    pub restarts: bool,
    /// One subscriber becomes unreachable for good
    pub goes_dark: bool,
    /// Only the subscribers on controller node 1 misbehave (the others are healthy)
    pub one_bad_node: bool,
}

/// A path which selects something on the generated node (a refused subscribe request is of no use here)
fn gen_sub_path(comp: &Composition) -> PathSpec {
    let e = &comp.endpoints[tape::choose(comp.endpoints.len() as u32) as usize];
    let c = &e.clusters[tape::choose(e.clusters.len() as u32) as usize];
    match tape::biased(5, 600) {
        0 => PathSpec { ep: Some(e.id), cl: Some(c.id), leaf: Some(tape::choose(c.attrs.len() as u32)) },
        1 => PathSpec { ep: Some(e.id), cl: Some(c.id), leaf: None },
        2 => PathSpec { ep: Some(e.id), cl: None, leaf: None },
        3 => PathSpec { ep: None, cl: Some(c.id), leaf: None },
        _ => PathSpec { ep: None, cl: None, leaf: None },
    }
}

pub fn gen_subs(_seed: u64, knobs: &SubKnobs) -> ImCfg {
    let base = ImKnobs { faults: knobs.faults, sched: knobs.sched, chunk_focus: true, access_focus: false, dynamic: false };
    let n_ctl = if knobs.one_bad_node { 2 } else { 1 + tape::biased(2, 400) as usize };
    let n_pairs = if knobs.one_bad_node { 2 + tape::biased(2, 400) as usize } else { 1 + tape::biased(3, 500) as usize };
    let pairs: Vec<Pair> = (0..n_pairs)
        .map(|i| Pair {
            kind: Kind::Case,
            ctl_node: 1 + i % n_ctl,
            dev_fab: 1 + (tape::biased(2, 300) as u8),
            ctl_nodeid: ctl_nodeid(i),
            dev_nodeid: DEV_NODEID,
        })
        .collect();
    let mut comp = gen_composition(n_pairs, &base);
    // Keep most values small: the interest is in the reporting logic; some stay large so that a
    // priming takes several round trips
    for e in comp.endpoints.iter_mut() {
        for c in e.clusters.iter_mut() {
            for a in c.attrs.iter_mut() {
                if tape::biased(4, 250) == 0 {
                    a.kind = match &a.kind {
                        AKind::List { items, .. } => AKind::List { items: (*items).min(5), item_len: 8 },
                        AKind::Octets(_) => AKind::Octets(8),
                        k => k.clone(),
                    };
                }
            }
        }
    }
    let all_attrs: Vec<(u16, u32, u32)> = comp
        .endpoints
        .iter()
        .flat_map(|e| e.clusters.iter().flat_map(move |c| c.attrs.iter().map(move |a| (e.id, c.id, a.id))))
        .collect();
    let all_events: Vec<(u16, u32, u32)> = comp
        .endpoints
        .iter()
        .flat_map(|e| e.clusters.iter().flat_map(move |c| c.events.iter().map(move |v| (e.id, c.id, v.id))))
        .collect();

    let calm_at = (40 + tape::choose(80) as u64) * SEC;

    // Controllers
    let mut controllers: Vec<CtlCfg> = (0..n_ctl)
        .map(|_| CtlCfg { scripts: Vec::new(), report_behaviour: Vec::new(), n_report_handlers: 2 })
        .collect();
    let mut op_id = 1u16;
    let mut max_max = 40u64;
    for (pi, pair) in pairs.iter().enumerate() {
        let mut list = vec![CtlStep {
            op_id: 0,
            pair: pi,
            op: CtlOp::Sleep { ms: 10 + tape::biased(6, 500) * 400 },
            status_delay_ms: 0,
            fail_after_chunks: None,
        }];
        let n_subs = 1 + tape::biased(2, 250);
        for k in 0..n_subs {
            let n_paths = 1 + tape::biased(3, 400);
            let attrs: Vec<PathSpec> = (0..n_paths).map(|_| gen_sub_path(&comp)).collect();
            let events: Vec<PathSpec> = if all_events.is_empty() || tape::biased(2, 400) == 0 {
                vec![]
            } else {
                vec![PathSpec { ep: None, cl: None, leaf: None }]
            };
            let min_s = [0u16, 0, 1, 2, 5][tape::biased(5, 500) as usize];
            let max_s = [40u16, 10, 60, 120][tape::biased(4, 400) as usize].max(min_s);
            max_max = max_max.max(max_s as u64);
            list.push(CtlStep {
                op_id,
                pair: pi,
                op: CtlOp::Subscribe { attrs, events, min_s, max_s, keep: k == 0 || tape::biased(2, 300) == 0, fabric_filtered: false },
                status_delay_ms: [0, 0, 20, 300, 1500][tape::biased(5, 500) as usize],
                fail_after_chunks: None,
            });
            op_id += 1;
            if k + 1 < n_subs {
                list.push(CtlStep {
                    op_id: 0,
                    pair: pi,
                    op: CtlOp::Sleep { ms: 500 + tape::choose(20) * 1000 },
                    status_delay_ms: 0,
                    fail_after_chunks: None,
                });
            }
        }
        controllers[pair.ctl_node - 1].scripts.push(list);
    }
    // Healthy subscribers may take up to 80 ms over a StatusResponse: reports stay in flight for a
    // moment, so that requests and changes meet them there
    for c in controllers.iter_mut() {
        let think = [0u32, 0, 10, 40, 80][tape::biased(5, 500) as usize];
        if think > 0 {
            c.report_behaviour = (0..12).map(|_| RepB::Ponder(think)).collect();
        }
    }
    if knobs.bad_subscribers {
        for (ci, c) in controllers.iter_mut().enumerate() {
            if knobs.one_bad_node && ci > 0 {
                continue;
            }
            let n = 2 + tape::choose(10) as usize;
            c.report_behaviour = (0..n)
                .map(|_| match tape::biased(6, 450) {
                    0 | 5 => RepB::Normal,
                    1 => RepB::DelayMs(50 + tape::choose(40) * 100),
                    2 => RepB::SilentMs(1000 + tape::choose(30) * 1000),
                    3 => RepB::Garbage,
                    _ => RepB::Fail(0x7d),
                })
                .collect();
        }
    }

    // Device script: changes and events; some fall into the priming of a subscription
    let mut dev_script = Vec::new();
    let n_steps = 2 + tape::biased(12, 600);
    for _ in 0..n_steps {
        let trig = match tape::biased(3, 500) {
            0 => Trig::AfterMs(tape::biased(8, 500) * 300 + tape::choose(200)),
            1 => Trig::AfterReads(1 + tape::choose(30)),
            _ => Trig::AfterMs(1000 + tape::choose(15) * 1000),
        };
        let n_ops = 1 + tape::biased(3, 300);
        let mut ops = Vec::new();
        for _ in 0..n_ops {
            let (ep, cl, attr) = all_attrs[tape::choose(all_attrs.len() as u32) as usize];
            ops.push(match tape::biased(8, 500) {
                0 | 5 | 6 => DevOp::Change { ep, cl, attr },
                1 => DevOp::ChangeCluster { ep, cl },
                2 => DevOp::ChangeEndpoint { ep },
                3 => DevOp::ChangeAll,
                4 => {
                    if all_events.is_empty() {
                        DevOp::Change { ep, cl, attr }
                    } else {
                        let (ep, cl, event) = all_events[tape::choose(all_events.len() as u32) as usize];
                        DevOp::Emit { ep, cl, event, prio: tape::choose(3) as u8 }
                    }
                }
                _ => {
                    if knobs.evictions {
                        DevOp::EvictSession { pair: tape::choose(n_pairs as u32) as usize }
                    } else {
                        DevOp::Change { ep, cl, attr }
                    }
                }
            });
        }
        // A burst of more distinct changes than the pending-change table holds
        if tape::biased(6, 150) == 1 {
            for k in 0..20 {
                let (ep, cl, attr) = all_attrs[k % all_attrs.len()];
                ops.push(DevOp::Change { ep, cl, attr });
            }
        }
        dev_script.push(DevStep { trig, ops });
    }

    let mut restarts = Vec::new();
    if knobs.restarts {
        for _ in 0..(1 + tape::biased(2, 300)) {
            restarts.push((tape::choose((calm_at / SEC) as u32) as u64 * SEC, (1 + tape::choose(5) as u64) * SEC));
        }
    }

    let mut net = if knobs.faults { faulty_net() } else { benign_net() };
    if knobs.goes_dark {
        net.mode = AdvMode::OneWay { src: 1 };
    }

    ImCfg {
        comp,
        pairs,
        replant: true,
        dev_script,
        dev_handlers: n_pairs + 1,
        suppress_startup_event: true,
        controllers,
        net,
        sched: sched(knobs.sched, u64::MAX / 2),
        calm_at_us: if knobs.goes_dark { None } else { Some(calm_at) },
        limit_us: calm_at + (2 * max_max + 60) * SEC,
        end_when_done: false,
        restarts,
    }
}

/// Everything a subscriber learnt about one subscription
struct SubView {
    op: u16,
    node: usize,
    pair: usize,
    id: u32,
    min_s: u16,
    max_s: u16,
    established: u64,
    /// (time of reception, chunks) of the priming and of every report exchange, in time order
    answers: Vec<(u64, Vec<Chunk>, Option<&'static str>)>,
    /// Reception time of every chunk of every report
    rx_times: Vec<u64>,
}

pub fn check_subs(run: &ImRun, root: &RootMeta, knobs: &SubKnobs, out: &mut Outcome) {
    let mut views: Vec<SubView> = Vec::new();
    for (op, rec) in &run.ops {
        let Some(step) = step_of(&run.cfg, *op) else {
            continue;
        };
        let CtlOp::Subscribe { min_s, .. } = &step.op else {
            continue;
        };
        out.count("subscribe_ops", 1);
        if rec.result != Some(OK) {
            continue;
        }
        let Some((_, _, pl)) = rec.rx.iter().find(|(_, o, _)| *o == OP_SUBSCRIBE_RESP) else {
            continue;
        };
        let Ok((id, max_s)) = parse_subscribe_response(pl) else {
            out.violate("response-malformed", format!("op {op}: SubscribeResponse does not parse"));
            continue;
        };
        let priming: Vec<Chunk> = rec
            .rx
            .iter()
            .filter(|(_, o, _)| *o == OP_REPORT)
            .filter_map(|(_, _, pl)| parse_report(pl).ok())
            .collect();
        let t0 = rec.rx.first().map(|x| x.0).unwrap_or(rec.start);
        views.push(SubView {
            op: *op,
            node: rec.node,
            pair: step.pair,
            id,
            min_s: *min_s,
            max_s,
            established: rec.end.unwrap_or(t0),
            answers: vec![(t0, priming, None)],
            rx_times: rec.rx.iter().map(|x| x.0).collect(),
        });
    }
    out.count("subscriptions_established", views.len() as u64);

    // Attach the reports
    for r in &run.reports {
        let mut chunks = Vec::new();
        for (i, (_, pl)) in r.chunks.iter().enumerate() {
            match parse_report(pl) {
                Ok(c) => chunks.push(c),
                Err(e) => {
                    out.violate(
                        "chunk-malformed",
                        format!("report exchange {} at node {}: chunk {i} is not a well-formed ReportData: {e}", r.hseq, r.node),
                    );
                }
            }
        }
        let Some(id) = chunks.first().and_then(|c| c.sub_id) else {
            if !chunks.is_empty() {
                out.violate("chunk-malformed", format!("report exchange {} at node {}: no subscription id", r.hseq, r.node));
            }
            continue;
        };
        let t = r.chunks.first().map(|x| x.0).unwrap_or(0);
        // The most recent subscription with this id at this node (ids restart with the device)
        match views.iter_mut().filter(|v| v.node == r.node && v.id == id && v.established <= t + 2 * SEC).last() {
            Some(v) => {
                v.answers.push((t, chunks, r.behaviour));
                v.rx_times.extend(r.chunks.iter().map(|x| x.0));
            }
            None => {
                out.count("reports_for_unknown_subscription", 1);
            }
        }
    }

    let calm = run.calm_time;
    let final_ids: BTreeSet<(u8, u64, u32)> = run
        .subs
        .as_ref()
        .map(|s| s.subs.iter().map(|x| (x.fab_idx, x.peer_node_id, x.id)).collect())
        .unwrap_or_default();
    // A subscriber which takes long over its status responses stretches a priming beyond the
    // maximum interval: the subscription may then legitimately expire at once
    let slow_client = run
        .cfg
        .controllers
        .iter()
        .flat_map(|c| c.scripts.iter().flat_map(|l| l.iter()))
        .any(|s| s.status_delay_ms > 100);
    let any_fault =
        run.fired.values().sum::<u64>() > 0 || knobs.bad_subscribers || knobs.evictions || knobs.restarts || slow_client;
    let w_final = world_at(run, root, run.log.len());

    for v in &mut views {
        v.answers.sort_by_key(|a| a.0);
    }
    for v in &views {
        let step = step_of(&run.cfg, v.op).unwrap();
        let CtlOp::Subscribe { attrs, events, .. } = &step.op else {
            continue;
        };
        let req = requester(&run.cfg, v.pair);
        // Replaced by a later subscribe of the same requester without KeepSubscriptions?
        // (the request ends the requester's earlier subscriptions when the device handles it -
        // also if the new subscription is then refused, e.g. for lack of a free slot; an answer
        // of any kind shows that the device handled the request)
        let replaced = views.iter().any(|o| {
            o.pair == v.pair
                && o.established > v.established
                && matches!(step_of(&run.cfg, o.op).map(|s| &s.op), Some(CtlOp::Subscribe { keep: false, .. }))
        }) || run.ops.iter().any(|(op, rec)| {
            rec.start > v.established
                && !rec.rx.is_empty()
                && matches!(step_of(&run.cfg, *op), Some(s) if s.pair == v.pair && matches!(s.op, CtlOp::Subscribe { keep: false, .. }))
        });
        let alive = final_ids.contains(&(req.fab, req.node_id, v.id)) && run.device_incarnations == 1
            || (run.device_incarnations > 1 && final_ids.iter().any(|(f, n, _)| *f == req.fab && *n == req.node_id));
        if alive {
            out.count("subscriptions_alive_at_end", 1);
        }
        if replaced {
            out.count("subscriptions_replaced", 1);
            continue;
        }

        // The interval the device granted
        if v.max_s < 1 {
            out.violate("max-interval", format!("op {}: granted maximum interval {}", v.op, v.max_s));
        }

        // (liveness) no fault at all: the subscription must still be there
        if !alive && !any_fault && calm.is_some() {
            out.violate(
                "subscription-lost",
                format!("op {} (subscription {} of node {}): gone from the device although nothing failed", v.op, v.id, v.node),
            );
        }
        if !alive || calm.is_none() {
            continue;
        }
        let calm = calm.unwrap();

        // (d) a report arrives at least every maximum interval: after the faults stopped, and
        // (where the subscription's own reports cannot fail unseen) over the whole run
        let whole_run = !knobs.evictions && !knobs.restarts && !knobs.goes_dark;
        let dev_reports = device_reports(run);
        let blocked = reporter_blocked_in(run, &dev_reports, v.id, v.node);
        let from = if whole_run { v.established } else { calm.max(v.established) };
        let mut prev = from;
        let mut after: Vec<u64> = v.rx_times.iter().copied().filter(|t| *t > from).collect();
        after.sort();
        for t in after.iter().chain(std::iter::once(&run.end_time)) {
            if *t - prev > (v.max_s as u64 + 15) * SEC {
                // Did the device try to report to this subscription in the gap (and fail)?
                let own_attempts = dev_reports
                    .iter()
                    .filter(|r| r.0 == v.id && r.1 == v.node && r.3 > prev && r.3 < *t)
                    .count();
                if prev >= calm || own_attempts == 0 {
                    let waiting = covered(&blocked, prev, *t);
                    let (oracle, why) = if *t - prev <= (v.max_s as u64 + 15) * SEC + waiting {
                        (
                            "liveness-report-late-behind-blocked-reporter",
                            format!(" (the reporter spent {} ms of that time waiting for the answer to reports of other subscriptions)", waiting / 1000),
                        )
                    } else {
                        ("liveness-report-late", String::new())
                    };
                    out.violate(
                        oracle,
                        format!(
                            "op {} (subscription {} of node {}): nothing received between t={} and t={} although the maximum interval is {} s (faults stopped at t={}, {} attempts of the device in between){}",
                            v.op, v.id, v.node, prev, t, v.max_s, calm, own_attempts, why
                        ),
                    );
                    break;
                }
            }
            prev = *t;
        }

        // (a) eventual consistency of the attribute values
        let selected: BTreeSet<(u16, u32, u32)> = expect_read(&w_final, &req, attrs, &|_, _| false)
            .into_iter()
            .filter_map(|e| match e {
                Exp::Data { ep, cl, attr } if ep != 0 && attr < 0xf000 => Some((ep, cl, attr)),
                _ => None,
            })
            .collect();
        let mut last_seen: BTreeMap<(u16, u32, u32), u32> = BTreeMap::new();
        let mut seen_events: BTreeSet<u64> = BTreeSet::new();
        for (_, chunks, _) in &v.answers {
            let re = reassemble(chunks);
            for (p, val, _) in &re.data {
                if let Some(kind) = kind_of(&run.cfg.comp, p.0, p.1, p.2) {
                    if let Some(ver) = version_of(kind, val) {
                        last_seen.insert(*p, ver);
                    }
                    if !selected.contains(p) {
                        out.violate(
                            "discloses-unselected",
                            format!("op {} (subscription {}): report carries {:x?} which the subscription does not select", v.op, v.id, p),
                        );
                    }
                }
            }
            for (_, num, _) in &re.events {
                seen_events.insert(*num);
            }
        }
        out.count("subscribed_attributes_checked", selected.len() as u64);
        for p in &selected {
            let kind = kind_of(&run.cfg.comp, p.0, p.1, p.2).unwrap();
            if matches!(kind, AKind::Octets(l) if *l < 4) || matches!(kind, AKind::List { items: 0, .. }) {
                continue;
            }
            let truth = *run.final_values.get(p).unwrap_or(&1);
            match last_seen.get(p) {
                Some(v_seen) if *v_seen == truth => {}
                other => {
                    let when = run
                        .log
                        .iter()
                        .rev()
                        .find(|e| matches!(&e.kind, ImKind::Change { ep, cl, attr, .. } if (*ep, *cl, *attr) == *p))
                        .map(|e| e.time);
                    out.violate(
                        "change-never-reported",
                        format!(
                            "op {} (subscription {} of node {}, established t={}): attribute {:x?} is at version {} on the device (last change t={:?}), the subscriber last saw {:?}; faults stopped at t={}, run ended t={}, maximum interval {} s",
                            v.op, v.id, v.node, v.established, p, truth, when, other, calm, run.end_time, v.max_s
                        ),
                    );
                }
            }
        }
        // Events emitted after the subscription was established
        if !events.is_empty() {
            for e in &run.log {
                if let ImKind::Emit { ep, cl, event, number: Some(n), .. } = &e.kind {
                    if e.time <= v.established {
                        continue;
                    }
                    let permitted_ev = run
                        .cfg
                        .comp
                        .cluster(*ep, *cl)
                        .and_then(|c| c.events.iter().find(|x| x.id == *event))
                        .map(|x| permitted(x.access, false, w_final.granted(&req, *ep, *cl)))
                        .unwrap_or(false);
                    if permitted_ev && events.iter().any(|p| p.matches(*ep, *cl, *event)) && run.device_incarnations == 1 {
                        out.count("subscribed_events_checked", 1);
                        if !seen_events.contains(n) {
                            out.violate(
                                "event-never-reported",
                                format!("op {} (subscription {}): event number {n} {:x?} emitted at t={} was never reported", v.op, v.id, (ep, cl, event), e.time),
                            );
                        }
                    }
                }
            }
        }
    }

    // (c) minimum interval, measured at the device: start of a report which succeeded to the
    // start of the next report of the same subscription
    check_min_interval(run, &views, out);
    // (e) expiry of a subscription whose reports keep failing
    check_expiry(run, &views, out);
}

/// Report exchanges as the device sent them: (subscription id, destination node, exchange id, time of
/// the first transmission, time the device consumed the final success status)
fn device_reports(run: &ImRun) -> Vec<(u32, usize, u16, u64, Option<u64>)> {
    let mut v: Vec<(u32, usize, u16, u64, Option<u64>)> = Vec::new();
    // Message counter of the last chunk (the one without MoreChunkedMessages) per report
    let mut final_ctr: Vec<Option<u32>> = Vec::new();
    for d in &run.dgrams {
        let (Some(proto), Some(plain), Some(dst)) = (&d.proto, &d.plain, d.dst) else {
            continue;
        };
        if proto.proto_id != PROTO_IM {
            continue;
        }
        if d.src == 0 && proto.opcode == OP_REPORT && proto.exch_flags & 0x01 != 0 {
            // Initiated by the device: a report (not a priming)
            if let Ok(c) = parse_report(&proto.payload) {
                if let Some(id) = c.sub_id {
                    let idx = match v.iter().position(|x| x.1 == dst && x.2 == proto.exch_id && x.0 == id && d.time < x.3 + 120 * SEC) {
                        Some(i) => i,
                        None => {
                            v.push((id, dst, proto.exch_id, d.time, None));
                            final_ctr.push(None);
                            v.len() - 1
                        }
                    };
                    if !c.more {
                        final_ctr[idx] = Some(plain.ctr);
                    }
                }
            }
        }
    }
    // Success: a status 0 from the subscriber answering the last chunk, which the device
    // acknowledged (a datagram which merely reached the device's socket may have been refused)
    for d in &run.dgrams {
        let (Some(proto), Some(plain)) = (&d.proto, &d.plain) else {
            continue;
        };
        if d.src != 0 && proto.proto_id == PROTO_IM && proto.opcode == OP_STATUS && parse_status(&proto.payload) == Ok(0) {
            let acked = run.dgrams.iter().find(|a| {
                a.src == 0
                    && a.dst == Some(d.src)
                    && a.time >= d.time
                    && matches!(&a.proto, Some(p) if p.exch_id == proto.exch_id && p.ack == Some(plain.ctr))
            });
            if let Some(a) = acked {
                for (i, x) in v.iter_mut().enumerate() {
                    if x.1 == d.src
                        && x.2 == proto.exch_id
                        && a.time >= x.3
                        && a.time < x.3 + 120 * SEC
                        && final_ctr[i].is_some()
                        && proto.ack == final_ctr[i]
                    {
                        x.4 = Some(a.time);
                    }
                }
            }
        }
    }
    v
}


/// Intervals during which the (single) reporter of the device was waiting for the answer to a
/// report of a subscription other than (`id`, `node`): from the first transmission of the report
/// to the success status, or for the receive timeout if none came
fn reporter_blocked(reports: &[(u32, usize, u16, u64, Option<u64>)], id: u32, node: usize) -> Vec<(u64, u64)> {
    reports
        .iter()
        .filter(|r| !(r.0 == id && r.1 == node))
        .map(|r| (r.3, r.4.unwrap_or(r.3 + 40 * SEC)))
        .collect()
}

/// The same, with an unanswered report blocking until 40 s (receive timeout) after the last
/// datagram seen on its exchange
fn reporter_blocked_in(run: &ImRun, reports: &[(u32, usize, u16, u64, Option<u64>)], id: u32, node: usize) -> Vec<(u64, u64)> {
    let mut v = reporter_blocked(reports, id, node);
    let others: Vec<&(u32, usize, u16, u64, Option<u64>)> = reports.iter().filter(|r| !(r.0 == id && r.1 == node)).collect();
    for (i, r) in others.iter().enumerate() {
        if r.4.is_none() {
            let last = run
                .dgrams
                .iter()
                .filter(|d| {
                    matches!(&d.proto, Some(p) if p.exch_id == r.2 && p.proto_id == PROTO_IM)
                        && ((d.src == 0 && d.dst == Some(r.1)) || (d.src == r.1 && d.dst == Some(0)))
                        && d.time >= r.3
                        && d.time < r.3 + 3600 * SEC
                })
                .map(|d| d.time)
                .max()
                .unwrap_or(r.3);
            v[i].1 = last + 40 * SEC;
        }
    }
    v
}

fn covered(intervals: &[(u64, u64)], from: u64, to: u64) -> u64 {
    // Total length of [from, to] covered by the union of the intervals
    let mut iv: Vec<(u64, u64)> = intervals
        .iter()
        .map(|(a, b)| ((*a).max(from), (*b).min(to)))
        .filter(|(a, b)| a < b)
        .collect();
    iv.sort();
    let mut total = 0;
    let mut cur: Option<(u64, u64)> = None;
    for (a, b) in iv {
        match cur {
            Some((ca, cb)) if a <= cb => cur = Some((ca, cb.max(b))),
            Some((ca, cb)) => {
                total += cb - ca;
                cur = Some((a, b));
            }
            None => cur = Some((a, b)),
        }
    }
    if let Some((ca, cb)) = cur {
        total += cb - ca;
    }
    total
}

fn check_min_interval(run: &ImRun, views: &[SubView], out: &mut Outcome) {
    if run.device_incarnations > 1 {
        return;
    }
    let reports = device_reports(run);
    for v in views {
        if v.min_s == 0 {
            continue;
        }
        // Start times: the priming, then the reports
        // The priming starts when the device handles the request, not before the request was sent
        let mut starts: Vec<(u64, bool)> = vec![(run.ops.get(&v.op).map(|o| o.start).unwrap_or(v.established), true)];
        for r in reports.iter().filter(|r| r.0 == v.id && r.1 == v.node && r.3 > v.established.saturating_sub(SEC)) {
            starts.push((r.3, r.4.is_some()));
        }
        starts.sort();
        for w in starts.windows(2) {
            if w[0].1 {
                let gap = w[1].0 - w[0].0;
                out.count("min_interval_gaps_checked", 1);
                if gap + 5 * MS < v.min_s as u64 * SEC {
                    out.violate(
                        "min-interval",
                        format!(
                            "op {} (subscription {}): report started at t={} only {} ms after the previous successful report (t={}), minimum interval {} s",
                            v.op, v.id, w[1].0, gap / 1000, w[0].0, v.min_s
                        ),
                    );
                }
            }
        }
    }
}

fn check_expiry(run: &ImRun, views: &[SubView], out: &mut Outcome) {
    if run.device_incarnations > 1 {
        return;
    }
    let reports = device_reports(run);
    for v in views {
        let req = requester(&run.cfg, v.pair);
        // Last success as the device saw it
        let mut last_success = v.established;
        for r in reports.iter().filter(|r| r.0 == v.id && r.1 == v.node) {
            if let Some(t) = r.4 {
                last_success = last_success.max(t);
            }
        }
        // Still in the table long after?
        let nominal = last_success + v.max_s as u64 * SEC;
        let deadline = nominal + 45 * SEC;
        let blocked = reporter_blocked_in(run, &reports, v.id, v.node);
        for (t, s) in &run.subs_series {
            if *t > deadline && s.subs.iter().any(|x| x.id == v.id && x.fab_idx == req.fab && x.peer_node_id == req.node_id) {
                let waiting = covered(&blocked, nominal, *t);
                let (oracle, why) = if *t - nominal <= 45 * SEC + waiting {
                    (
                        "expiry-late-behind-blocked-reporter",
                        format!(" (the reporter spent {} ms of that time waiting for the answer to reports of other subscriptions)", waiting / 1000),
                    )
                } else {
                    ("expiry-late", String::new())
                };
                out.violate(
                    oracle,
                    format!(
                        "op {} (subscription {}): still in the device's table at t={} although its last successful report was at t={} and the maximum interval is {} s{}",
                        v.op, v.id, t, last_success, v.max_s, why
                    ),
                );
                break;
            }
        }
        if run.end_time > deadline {
            out.count("expiry_windows_checked", 1);
        }
    }
}

pub struct SubScenario {
    pub name: &'static str,
    pub knobs: SubKnobs,
}

impl Scenario for SubScenario {
    fn property(&self) -> &'static str {
        "C13"
    }

    fn name(&self) -> &'static str {
        self.name
    }

    fn run(&self, seed: u64) -> Outcome {
        let cfg = gen_subs(seed, &self.knobs);
        let run = drive(seed, cfg);
        let root = root_meta();
        let mut out = Outcome::default();
        common_counters(&run, &mut out);
        check_subs(&run, &root, &self.knobs, &mut out);
        out.count(
            "changes_made",
            run.log.iter().filter(|e| matches!(e.kind, ImKind::Change { .. })).count() as u64,
        );
        out.count(
            "events_emitted",
            run.log.iter().filter(|e| matches!(e.kind, ImKind::Emit { .. })).count() as u64,
        );
        out.count(
            "reports_with_misbehaving_subscriber",
            run.reports.iter().filter(|r| r.behaviour.is_some()).count() as u64,
        );
        out.nontrivial = !run.reports.is_empty();
        out.sample = Some(sample_of(&run));
        dump(&run);
        out
    }
}

pub fn defs_c13() -> Vec<PropertyDef> {
    let ff = SubKnobs { faults: false, sched: false, bad_subscribers: false, evictions: false, restarts: false, goes_dark: false, one_bad_node: false };
    vec![PropertyDef {
        id: "C13",
        level: "exploration",
        families: vec![
            Family {
                scenario: Box::new(SubScenario { name: "subscriptions-fault-free", knobs: ff }),
                weight: 3,
                fault_free: true,
            },
            Family {
                scenario: Box::new(SubScenario { name: "subscriptions-schedules", knobs: SubKnobs { sched: true, ..ff } }),
                weight: 2,
                fault_free: false,
            },
            Family {
                scenario: Box::new(SubScenario {
                    name: "subscriptions-faults",
                    knobs: SubKnobs { faults: true, sched: true, bad_subscribers: true, evictions: true, ..ff },
                }),
                weight: 4,
                fault_free: false,
            },
            Family {
                scenario: Box::new(SubScenario {
                    name: "one-misbehaving-subscriber",
                    knobs: SubKnobs { sched: true, bad_subscribers: true, one_bad_node: true, ..ff },
                }),
                weight: 2,
                fault_free: false,
            },
            Family {
                scenario: Box::new(SubScenario {
                    name: "subscriber-goes-dark",
                    knobs: SubKnobs { sched: true, goes_dark: true, ..ff },
                }),
                weight: 1,
                fault_free: false,
            },
        ],
        rule: "each run = generated node composition, 1-3 subscribers (CASE, either fabric) on 1-2 controller nodes establishing 1-2 subscriptions each (concrete / cluster / endpoint / global wildcards, optional event wildcard, min interval 0-5 s, max interval 10-120 s, client-side delay of up to 1.5 s before each StatusResponse of the priming), a device script of 2-13 steps changing attributes / clusters / endpoints / everything, emitting events, bursts of more distinct changes than the pending-change table holds, triggered by time or by the n-th attribute read (i.e. while a priming or report is between its round trips); under faults: loss / duplication / delay, subscribers answering with failure / garbage / nothing / late, sessions evicted on the device (re-planted by the harness, standing for CASE re-establishment); faults stop at a tape-chosen instant, then 2 x max interval + 60 s of simulated time follow; distinct = distinct trace hash; non-trivial = at least one report exchange reached a subscriber",
        assumptions: ASSUMPTIONS.to_vec(),
        real: "rs-matter Interaction Model (subscribe, priming, reporter loop, change table, retry/expiry arithmetic, event queue), exchange layer, MRP, transport",
        stubbed: "application clusters (synthetic handler), subscribers (raw exchanges, scripted misbehaviour), CASE re-establishment after session loss (harness re-plants the session pair), UDP, clock, RNG",
        budget_s: (90, 900),
    }]
}
