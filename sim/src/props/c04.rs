//! C04, component layer: receive-window histories produced by a simulated sender + network
//! adversary (duplication, bounded and unbounded reordering, jumps, first-received != first-sent,
//! values around 0 / 2^28 / 2^31 / 2^32-1, group senders with LRU eviction and roll-over), fed to
//! the real `RxCtrState` / `GroupCtrStore` and to a reference model, compared step by step.

use std::collections::{BTreeMap, BTreeSet};

use rs_matter::transport::verif_dedup::{GroupCtrStore, RxCtrState, MAX_GROUP_CTR_ENTRIES};
use serde_json::json;

use crate::props::{Family, PropertyDef};
use crate::runner::{Outcome, Scenario};
use crate::tape;

const WINDOW: u32 = 16;

/// Arrival sequence of one sender's counters after the adversary had its way
fn gen_history(start: u32, rollover: bool, steps: usize) -> (Vec<u32>, BTreeMap<&'static str, u64>) {
    let mut fired: BTreeMap<&'static str, u64> = BTreeMap::new();
    // 1. what the sender emits
    let mut sent = Vec::new();
    let mut c = start;
    let n_sent = 1 + tape::choose(steps as u32) as usize;
    let mut travelled: u64 = 0;
    for _ in 0..n_sent {
        sent.push(c);
        let jump = match tape::biased(7, 150) {
            0 => 1,
            1 => 2 + tape::choose(14),
            2 => 16,
            3 => 17 + tape::choose(100),
            4 => 1 << (4 + tape::choose(24)),
            // A unicast sender may jump by any amount (there is no roll-over to confuse it with)
            6 if !rollover => (1u32 << 31).wrapping_sub(3).wrapping_add(tape::choose(1 << 12)),
            6 => 1 << 27,
            _ => 15,
        };
        if jump > 1 {
            *fired.entry("sender_jump").or_default() += 1;
        }
        travelled += jump as u64;
        if rollover && travelled >= (1 << 31) {
            break;
        }
        if rollover {
            c = c.wrapping_add(jump);
        } else {
            match c.checked_add(jump) {
                Some(n) => c = n,
                None => break,
            }
        }
    }
    // 2. what the network delivers: each datagram gets a delivery slot = index + delay
    let mut arrivals: Vec<(u64, usize, u32)> = Vec::new();
    let mut k = 0usize;
    for (i, c) in sent.iter().enumerate() {
        let copies = match tape::weighted(&[800, 60, 100, 40]) {
            1 => {
                *fired.entry("drop").or_default() += 1;
                0
            }
            2 => {
                *fired.entry("dup").or_default() += 1;
                2
            }
            3 => {
                *fired.entry("dup").or_default() += 1;
                3
            }
            _ => 1,
        };
        for _ in 0..copies {
            let delay = match tape::weighted(&[750, 120, 80, 50]) {
                1 => {
                    *fired.entry("reorder_within_window").or_default() += 1;
                    1 + tape::choose(15) as u64
                }
                2 => {
                    *fired.entry("reorder_beyond_window").or_default() += 1;
                    17 + tape::choose(60) as u64
                }
                3 => {
                    *fired.entry("reorder_far").or_default() += 1;
                    100 + tape::choose(200) as u64
                }
                _ => 0,
            };
            arrivals.push(((i as u64) * 2 + delay * 2 + 1, k, *c));
            k += 1;
        }
    }
    arrivals.sort();
    (arrivals.into_iter().map(|a| a.2).collect(), fired)
}

fn start_value() -> u32 {
    match tape::choose(10) {
        0 => 0,
        1 => 1,
        2 => tape::choose(40),
        3 => (1 << 28) - 1 - tape::choose(40),
        4 => (1 << 31) - 20 + tape::choose(40),
        5 => u32::MAX - tape::choose(60),
        6 => u32::MAX,
        _ => {
            let hi = tape::choose(1 << 16);
            let lo = tape::choose(1 << 16);
            (hi << 16 | lo) & 0x0fff_ffff
        }
    }
}

pub struct UnicastScenario {
    pub secured: bool,
}

impl Scenario for UnicastScenario {
    fn property(&self) -> &'static str {
        "C04"
    }
    fn name(&self) -> &'static str {
        if self.secured {
            "window-unicast-secured"
        } else {
            "window-unsecured"
        }
    }

    fn run(&self, _seed: u64) -> Outcome {
        let mut out = Outcome::default();
        let start = start_value();
        let (hist, fired) = gen_history(start, false, 60);
        for (k, v) in &fired {
            out.count(&format!("fault_{k}"), *v);
        }
        // A fresh session starts like the code does: `RxCtrState::new(0)`
        let mut real = RxCtrState::new(0);
        let mut accepted: BTreeSet<u32> = BTreeSet::new();
        let mut max: Option<u32> = None;
        // After an unsecured counter restart the window content is unknown to the model
        let mut dont_care: BTreeSet<u32> = BTreeSet::new();
        let mut verdicts = Vec::new();
        for (step, &c) in hist.iter().enumerate() {
            let got = real.post_recv(c, self.secured, false);
            crate::kernel::trace("ctr", c as u64, got as u64, &[]);
            verdicts.push((c, got));
            let seen = accepted.contains(&c);
            let newer = max.map(|m| c > m).unwrap_or(true);
            let in_window = max.map(|m| c <= m && m - c <= WINDOW).unwrap_or(false);
            let ctx = || format!("step {step} ctr {c:#x} max {max:?} history {:x?}", &hist[..=step]);
            if newer {
                if !got {
                    out.violate("C04-new-maximum-rejected", ctx());
                }
                accepted.insert(c);
                max = Some(c);
            } else if in_window {
                if dont_care.remove(&c) {
                    // Status unknown to the model (window content after an unsecured restart)
                    // Whatever the verdict, from now on the counter counts as received
                    let _ = got;
                    accepted.insert(c);
                } else if seen {
                    out.count("true_duplicates", 1);
                    if got {
                        out.violate("C04-accepted-twice", ctx());
                    }
                } else {
                    out.count("first_time_in_window", 1);
                    if !got {
                        out.violate("C04-first-time-in-window-rejected", ctx());
                    }
                    accepted.insert(c);
                }
            } else if self.secured {
                out.count("older_than_window", 1);
                if got {
                    out.violate(
                        if seen { "C04-accepted-twice" } else { "C04-accepted-older-than-window" },
                        ctx(),
                    );
                }
            } else {
                // Unsecured: anything older than the window counts as a counter restart of the
                // peer and is accepted (the at-most-once promise is for secured sessions)
                out.count("unsecured_restart", 1);
                if !got {
                    out.violate("C04-unsecured-restart-rejected", ctx());
                }
                // The peer restarted: what it sent in its previous life is forgotten
                accepted.clear();
                accepted.insert(c);
                max = Some(c);
                dont_care = (c.saturating_sub(WINDOW)..c).collect();
            }
        }
        out.sim_time_us = 0;
        out.nontrivial = hist.len() >= 2 && fired.values().sum::<u64>() > 0;
        out.state_sigs.push(real.verif_parts().1 as u64);
        out.sample = Some(json!({"start": start, "arrivals": hist.iter().map(|c| format!("{c:#x}")).collect::<Vec<_>>(),
            "verdicts": verdicts.iter().map(|v| v.1).collect::<Vec<_>>()}));
        out
    }
}

pub struct GroupScenario;

impl Scenario for GroupScenario {
    fn property(&self) -> &'static str {
        "C04"
    }
    fn name(&self) -> &'static str {
        "window-group-senders"
    }

    fn run(&self, _seed: u64) -> Outcome {
        let mut out = Outcome::default();
        let n_senders = 1 + tape::choose(MAX_GROUP_CTR_ENTRIES as u32 + 4) as usize;
        let mut hists: Vec<(u8, u64, Vec<u32>)> = Vec::new();
        for s in 0..n_senders {
            let (h, fired) = gen_history(start_value(), true, 24);
            for (k, v) in &fired {
                out.count(&format!("fault_{k}"), *v);
            }
            hists.push((1 + (s % 2) as u8, 0x1000 + (s / 2) as u64, h));
        }
        // Interleave the senders' arrivals
        let mut pos = vec![0usize; n_senders];
        let mut order: Vec<usize> = Vec::new();
        loop {
            let live: Vec<usize> = (0..n_senders).filter(|s| pos[*s] < hists[*s].2.len()).collect();
            if live.is_empty() {
                break;
            }
            let s = live[tape::choose(live.len() as u32) as usize];
            order.push(s);
            pos[s] += 1;
        }

        struct Model {
            max: u32,
            accepted: BTreeSet<u32>,
            last_used: u64,
        }
        let mut real = GroupCtrStore::new();
        let mut model: BTreeMap<(u8, u64), Model> = BTreeMap::new();
        let mut clock = 0u64;
        let mut pos = vec![0usize; n_senders];
        let mut log = Vec::new();
        for (step, s) in order.iter().enumerate() {
            let (fab, node, h) = &hists[*s];
            let c = h[pos[*s]];
            pos[*s] += 1;
            clock += 1;
            let got = real.post_recv(*fab, *node, c);
            crate::kernel::trace("gctr", (*fab as u64) << 32 | c as u64, *node ^ got as u64, &[]);
            log.push(format!("{fab}/{node:#x}:{c:#x}={got}"));
            let key = (*fab, *node);
            let ctx = |m: Option<u32>| format!("step {step} sender {fab}/{node:#x} ctr {c:#x} max {m:?} tail {:?}", &log[log.len().saturating_sub(12)..]);
            match model.get_mut(&key) {
                Some(m) => {
                    m.last_used = clock;
                    let fwd = c.wrapping_sub(m.max);
                    let seen = m.accepted.contains(&c);
                    if seen {
                        out.count("true_duplicates", 1);
                        if got {
                            out.violate("C04-group-accepted-twice", ctx(Some(m.max)));
                        }
                    } else if fwd >= 1 && fwd <= i32::MAX as u32 {
                        if !got {
                            out.violate("C04-group-new-maximum-rejected", ctx(Some(m.max)));
                        }
                        m.accepted.insert(c);
                        m.max = c;
                    } else {
                        let behind = m.max.wrapping_sub(c);
                        if behind > WINDOW {
                            out.count("older_than_window", 1);
                            if got {
                                out.violate("C04-group-accepted-older-than-window", ctx(Some(m.max)));
                            }
                        } else {
                            // In-window, never accepted: the statement leaves this open for groups
                            out.count("group_in_window_unspecified", 1);
                            if got {
                                m.accepted.insert(c);
                            }
                        }
                    }
                }
                None => {
                    // New (or evicted, hence forgotten) sender: trust first
                    out.count("group_new_sender", 1);
                    if !got {
                        out.violate("C04-group-new-sender-rejected", ctx(None));
                    }
                    if model.len() >= MAX_GROUP_CTR_ENTRIES {
                        out.count("group_evictions", 1);
                        let lru = model.iter().min_by_key(|(_, m)| m.last_used).map(|(k, _)| *k).unwrap();
                        model.remove(&lru);
                    }
                    let mut accepted = BTreeSet::new();
                    accepted.insert(c);
                    model.insert(
                        key,
                        Model {
                            max: c,
                            accepted,
                            last_used: clock,
                        },
                    );
                }
            }
        }
        out.nontrivial = order.len() >= 2;
        out.state_sigs.push(model.len() as u64);
        out.sample = Some(json!({"senders": n_senders, "steps": order.len(), "first_steps": log.iter().take(16).collect::<Vec<_>>()}));
        out
    }
}

/// C04, system level with a raw peer: a conforming peer other than rs-matter, holding the keys of
/// its sessions, sends authentic messages whose counters jump by any amount, arrive duplicated
/// and reordered (next to the ordinary traffic between the stacks). Receive-window verdicts of
/// the real stack (guarded event hook) against the model.
pub struct RawPeerCounters;

impl Scenario for RawPeerCounters {
    fn property(&self) -> &'static str {
        "C04"
    }
    fn name(&self) -> &'static str {
        "system-raw-peer-counters"
    }

    fn run(&self, seed: u64) -> Outcome {
        use crate::kernel::MS;
        use crate::props::mrp_oracles::check_c04_sys;
        use crate::props::mrp_props::common_counters;
        use crate::worlds::mrp::{Kind, Planted, OP_APP, PROTO_APP};
        use crate::worlds::mrp_drive::{drive, gen_cfg, MrpKnobs, RawMsg, RAW_NODE};

        let mut cfg = gen_cfg(seed, &MrpKnobs::full());
        let n_raw = 1 + tape::choose(2) as usize;
        let mut fired_all: BTreeMap<&'static str, u64> = BTreeMap::new();
        let mut t_end = 0u64;
        for i in 0..n_raw {
            let idx = cfg.planted.len();
            let mut r = crate::tape::Rng::new(seed ^ (0xE0 + i as u64));
            let mut key = [0u8; 16];
            key[..8].copy_from_slice(&r.next_u64().to_le_bytes());
            key[8..].copy_from_slice(&r.next_u64().to_le_bytes());
            cfg.planted.push(Planted {
                kind: if tape::choose(2) == 1 { Kind::Pase } else { Kind::Case },
                a: tape::choose(2) as usize,
                b: RAW_NODE,
                a_local_sid: 60 + i as u16,
                b_local_sid: 70 + i as u16,
                a_nodeid: 0x1111_0200 + i as u64,
                b_nodeid: 0x3333_0000 + i as u64,
                key_ab: key,
                key_ba: key.map(|b| b ^ 0x5a),
            });
            let (hist, fired) = gen_history(start_value(), false, 40);
            for (k, v) in fired {
                *fired_all.entry(k).or_default() += v;
            }
            let spacing = [2u64, 20, 60][tape::choose(3) as usize];
            for (k, ctr) in hist.iter().enumerate() {
                let at = (5 + k as u64 * spacing) * MS;
                t_end = t_end.max(at);
                cfg.raw_msgs.push(RawMsg {
                    at_us: at,
                    planted: idx,
                    ctr: *ctr,
                    // A retransmitted / duplicated datagram is the same message: same exchange
                    exch_id: 0x4000 + (*ctr as u16 ^ (*ctr >> 16) as u16) % 0x3000,
                    initiator: true,
                    reliable: tape::biased(2, 300) == 1,
                    ack: None,
                    vendor: None,
                    proto_id: PROTO_APP,
                    opcode: OP_APP,
                    payload: format!("RAW{i}-{ctr:08x}").into_bytes(),
                });
            }
        }
        cfg.hold_until_us = t_end + 500 * MS;
        let run = drive(seed, cfg);
        let mut out = Outcome::default();
        common_counters(&run, &mut out);
        for (k, v) in &fired_all {
            out.count(&format!("fault_raw_{k}"), *v);
        }
        out.count("raw_datagrams", run.cfg.raw_msgs.len() as u64);
        check_c04_sys(&run, &mut out);
        out.nontrivial = run.cfg.raw_msgs.len() >= 2;
        out.sample = Some(json!({"raw_sessions": n_raw,
            "raw_counters": run.cfg.raw_msgs.iter().take(24).map(|m| format!("{:#x}", m.ctr)).collect::<Vec<_>>()}));
        out
    }
}

pub fn defs() -> Vec<PropertyDef> {
    use crate::props::mrp_props::{MrpScenario, Which};
    use crate::worlds::mrp_drive::MrpKnobs;
    vec![PropertyDef {
        id: "C04",
        level: "exploration",
        families: vec![
            Family {
                scenario: Box::new(UnicastScenario { secured: true }),
                weight: 3,
                fault_free: false,
            },
            Family {
                scenario: Box::new(UnicastScenario { secured: false }),
                weight: 1,
                fault_free: false,
            },
            Family {
                scenario: Box::new(GroupScenario),
                weight: 3,
                fault_free: false,
            },
            Family {
                scenario: Box::new(MrpScenario {
                    which: Which::C04,
                    name: "system-two-stacks",
                    knobs: MrpKnobs::full(),
                }),
                weight: 5,
                fault_free: false,
            },
            Family {
                scenario: Box::new(RawPeerCounters),
                weight: 4,
                fault_free: false,
            },
            Family {
                scenario: Box::new(crate::props::c03::C04ForgedScenario),
                weight: 3,
                fault_free: false,
            },
        ],
        rule: "component families: one run = one sender history (start value around 0 / 2^28 / 2^31 / 2^32-1 or random, jumps 1..2^28) pushed through a simulated network (drop, duplicate, reorder within / beyond the 16-entry window) into the real RxCtrState / GroupCtrStore (up to 20 senders, LRU eviction) and a reference model; system family: two real stacks under the datagram adversary with the receive-window verdict of every datagram (guarded event hook) checked against the model; system-raw-peer-counters: the same two stacks plus a raw peer (harness-made, authentic under the keys of 1-2 extra sessions, standing for a conforming implementation other than rs-matter) whose counters start anywhere, jump by up to 2^31 and arrive dropped, duplicated and reordered; system-group-senders-and-forgeries: 2-3 real stacks of one fabric with group keys exchanging 3-8 group data messages and unicast traffic while forged variants of the datagrams (altered counter, source, group id, body, tag; replays, misrouted copies) arrive before or after the authentic ones - per (receiver, group sender) an authentic message with a counter above everything accepted so far is accepted, none twice; distinct = distinct trace hash (system) or distinct arrival history (component); non-trivial = >= 2 arrivals and at least one network fault or jump fired",
        assumptions: vec![
            "component families are model-based tests of a pure state machine driven by simulated network histories; the system family is the part only a simulator reaches",
            "reference model written from the property statement (set of accepted counters + maximum + 16-entry window), not from the code",
            "group senders: in-window first-time counters are left unspecified (the statement requires their acceptance for unicast only)",
            "sampling, not enumeration",
        ],
        real: "transport/dedup.rs (RxCtrState, GroupCtrStore) directly; in the system family additionally transport, sessions, exchanges, MRP",
        stubbed: "network (simulated), clock, RNG; sessions planted",
        budget_s: (60, 600),
    }]
}
