//! C15: nonce uniqueness. Tap oracle over retransmission-heavy mrp-world runs, snapshot oracle
//! for local session / exchange identifiers, and a long allocation history crossing the 16-bit
//! exchange-id wrap with long-lived exchanges.

use std::collections::BTreeSet;

use rs_matter::crypto::default_crypto;
use rs_matter::dm::devices::test::{DAC_PRIVKEY, TEST_DEV_ATT, TEST_DEV_COMM, TEST_DEV_DET};
use rs_matter::transport::exchange::Exchange;
use rs_matter::Matter;
use serde_json::json;

use crate::props::mrp_props::{MrpScenario, Which};
use crate::props::{Family, PropertyDef};
use crate::runner::{Outcome, Scenario};
use crate::tape::{self, NodeRng, Rng};
use crate::worlds::mrp::{plant, Kind, Planted};
use crate::worlds::mrp_drive::MrpKnobs;

pub struct ExchIdWrap;

impl Scenario for ExchIdWrap {
    fn property(&self) -> &'static str {
        "C15"
    }
    fn name(&self) -> &'static str {
        "exchange-id-wrap"
    }

    fn run(&self, seed: u64) -> Outcome {
        let mut out = Outcome::default();
        let matter = Matter::new(&TEST_DEV_DET, TEST_DEV_COMM, &TEST_DEV_ATT, 5540);
        let crypto = default_crypto(NodeRng(Rng::new(seed ^ 0x15)), DAC_PRIVKEY);
        matter.with_state(|state| {
            state.fabrics.add_with_post_init(|_| Ok(())).unwrap();
        });
        let n_sessions = 1 + tape::choose(3) as usize;
        for i in 0..n_sessions {
            let p = Planted {
                kind: Kind::Case,
                a: 0,
                b: 1,
                a_local_sid: 10 + i as u16,
                b_local_sid: 20 + i as u16,
                a_nodeid: 1,
                b_nodeid: 2,
                key_ab: [1; 16],
                key_ba: [2; 16],
            };
            plant(&matter, &crypto, 0, &p).unwrap();
        }
        let sess_ids: Vec<u32> = matter.verif_snapshot().sessions.iter().map(|s| s.id).collect();

        // History: allocations of short-lived exchanges, with up to 3 long-lived ones opened at
        // tape-chosen points and kept open across the 16-bit wrap of the id space
        let total = 66_000 + tape::choose(4) as usize * 1_000;
        let n_long = 1 + tape::choose(3) as usize;
        let mut long_at: Vec<usize> = (0..n_long).map(|_| tape::choose(2_000) as usize).collect();
        long_at.sort();
        let mut long: Vec<Exchange<'_>> = Vec::new();
        let mut allocs = 0u64;
        for step in 0..total {
            let sess = sess_ids[(step * 7 + step / 5) % sess_ids.len()];
            let Ok(ex) = Exchange::initiate_for_session(&matter, &crypto, sess) else {
                continue;
            };
            allocs += 1;
            // Uniqueness among live initiator exchanges (they share one id space per node)
            let snap = matter.verif_snapshot();
            let mut ids = BTreeSet::new();
            for s in &snap.sessions {
                for e in s.exchanges.iter().filter(|e| e.initiator) {
                    if !ids.insert(e.exch_id) {
                        out.violate(
                            "C15-duplicate-initiator-exchange-id",
                            format!(
                                "after {allocs} allocations ({} long-lived exchanges open) exchange id {:#x} is in use by two live initiator exchanges",
                                long.len(),
                                e.exch_id
                            ),
                        );
                    }
                }
            }
            if long_at.first() == Some(&step) || (long_at.first().map(|s| *s < step).unwrap_or(false)) {
                long_at.remove(0);
                long.push(ex);
            } else {
                drop(ex);
            }
            if !out.violations.is_empty() {
                break;
            }
        }
        let wraps = allocs / 65_535;
        crate::kernel::trace("wrap", allocs, wraps, &[]);
        out.count("exchange_allocations", allocs);
        out.count("probe_exchange_id_wraps", wraps);
        out.count("long_lived_exchanges", long.len() as u64);
        out.nontrivial = wraps > 0;
        out.state_sigs.push(((n_sessions as u64) << 8) | n_long as u64);
        out.sample = Some(json!({"sessions": n_sessions, "long_lived": n_long, "allocations": allocs, "id_wraps": wraps}));
        drop(long);
        out
    }
}

/// Real commissioning (PASE, CASE, Interaction Model) under loss that forces retransmissions of
/// handshake messages, requests and responses: every datagram a node puts on the wire under one
/// (session id, counter) is bit-identical to the first one - also Sigma2 / Sigma3, which are
/// rebuilt (signed, encrypted under the handshake key with its fixed nonce) for every transmission.
pub struct HandshakeRetransmissions;

impl Scenario for HandshakeRetransmissions {
    fn property(&self) -> &'static str {
        "C15"
    }
    fn name(&self) -> &'static str {
        "handshakes-under-loss"
    }

    fn run(&self, seed: u64) -> Outcome {
        use crate::kernel::{SchedCfg, MS, SEC};
        use crate::net::TapEvent;
        use crate::worlds::full::CtlStep;
        use crate::worlds::full_drive::{drive_full, CtlSpec, FullCfg, UniformNet};
        use std::collections::BTreeMap;

        let mut a_script = vec![CtlStep::Commission { dev: 0 }];
        for _ in 0..1 + tape::choose(3) {
            a_script.push(CtlStep::ReadOnOff { dev: 0 });
        }
        a_script.push(CtlStep::Toggle { dev: 0 });
        a_script.push(CtlStep::OpenWindow { dev: 0, secs: 300 });
        a_script.push(CtlStep::Sleep { ms: 20_000 });
        a_script.push(CtlStep::ReadOnOff { dev: 0 });
        let b_script = vec![
            CtlStep::Sleep { ms: 12_000 + tape::choose(8) * 1_000 },
            CtlStep::Commission { dev: 0 },
            CtlStep::ReadOnOff { dev: 0 },
            CtlStep::Sleep { ms: 15_000 },
            CtlStep::ReadOnOff { dev: 0 },
        ];
        // A device restart forces both controllers through CASE again (resumption first)
        let crashes = if tape::chance(400) { vec![(25_000 + tape::choose(20) as u64 * 500) * MS] } else { vec![] };
        let cfg = FullCfg {
            n_devices: 1,
            controllers: vec![
                CtlSpec { fabric_id: 1, node_id: 0x1000, script: a_script, continue_on_error: true },
                CtlSpec { fabric_id: 2, node_id: 0x2000, script: b_script, continue_on_error: true },
            ],
            handlers: 3,
            net: UniformNet {
                latency_us: 500 + tape::choose(4) as u64 * 500,
                jitter_us: [0, 2000][tape::choose(2) as usize],
                drop_permille: [50, 120, 200, 300][tape::choose(4) as usize],
                dup_permille: [0, 50][tape::choose(2) as usize],
                hold_permille: [0, 50, 150][tape::choose(3) as usize],
                hold_max_ms: [50, 600][tape::choose(2) as usize],
                ..Default::default()
            },
            sched: SchedCfg {
                nonfifo_permille: [0, 100, 300][tape::choose(3) as usize],
                max_polls: 4_000_000,
                max_time: 2_000 * SEC,
                ..Default::default()
            },
            limit_us: 600 * SEC,
            kv_faults: vec![],
            crashes,
            restart_after_us: 300 * MS,
            cancels: vec![],
            calm_at_us: None,
        };
        let run = drive_full(seed, cfg);
        let mut out = Outcome::default();
        for (k, v) in &run.fired {
            out.count(&format!("fault_{k}"), *v);
        }
        out.count("net_sent", run.net.sent);
        out.count("net_dropped", run.net.dropped);
        out.count("device_restarts", (run.device_incarnations - 1) as u64);
        out.sim_time_us = run.end_time;

        // (sender, incarnation, destination, session id, counter, source node id, exchange) -> first
        // datagram. Unsecured messages are told apart by their exchange as well: status reports
        // sent outside of any session (SessionNotFound, Busy) all carry the same counter, and
        // nothing is encrypted there.
        let mut groups: BTreeMap<(usize, u32, String, u16, u32, Option<u64>, Option<(u16, bool)>), (u64, Vec<u8>)> = BTreeMap::new();
        let mut retransmitted_handshake = 0u64;
        for e in &run.tap {
            let TapEvent::Send(s) = e else {
                continue;
            };
            if s.src_incarnation == 0 {
                continue;
            }
            let Some(plain) = crate::wire::decode_plain(&s.bytes) else {
                continue;
            };
            let proto = if plain.sess_id == 0 { crate::wire::decode_proto(&s.bytes, &plain, None, 0) } else { None };
            let exch = proto.as_ref().map(|p| (p.exch_id, p.exch_flags & 1 != 0));
            let key = (s.src, s.src_incarnation, format!("{:?}", s.dst), plain.sess_id, plain.ctr, plain.src, exch);
            match groups.get(&key) {
                None => {
                    groups.insert(key, (s.time, s.bytes.clone()));
                }
                Some((t0, first)) => {
                    out.count("c15_retransmissions_on_the_wire", 1);
                    if let Some(p) = &proto {
                        if p.proto_id == 0 && matches!(p.opcode, 0x20..=0x24 | 0x30..=0x33) {
                            retransmitted_handshake += 1;
                            if matches!(p.opcode, 0x31 | 0x32) {
                                out.count("probe_sigma2_or_sigma3_retransmitted", 1);
                            }
                        }
                    }
                    if *first != s.bytes {
                        let what = match &proto {
                            Some(p) => format!("unsecured, protocol {:#x} opcode {:#x}", p.proto_id, p.opcode),
                            None => format!("session id {}", plain.sess_id),
                        };
                        let diff = first.iter().zip(s.bytes.iter()).position(|(a, b)| a != b);
                        out.violate(
                            "C15-retransmission-not-identical",
                            format!(
                                "node {} ({what}) counter {:#x}: the datagram sent at t={} differs from the one sent at t={t0} under the same counter ({} vs {} bytes, first difference at offset {:?})",
                                s.src, plain.ctr, s.time, s.bytes.len(), first.len(), diff
                            ),
                        );
                        break;
                    }
                }
            }
        }
        out.count("c15_handshake_retransmissions", retransmitted_handshake);
        out.nontrivial = retransmitted_handshake > 0;
        out.state_sigs.push(retransmitted_handshake.min(8));
        out.sample = Some(json!({"handshake_retransmissions": retransmitted_handshake, "device_restarts": run.device_incarnations - 1}));
        out
    }
}

pub fn defs() -> Vec<PropertyDef> {
    vec![PropertyDef {
        id: "C15",
        level: "exploration",
        families: vec![
            Family {
                scenario: Box::new(MrpScenario {
                    which: Which::C15,
                    name: "tap-fault-free",
                    knobs: MrpKnobs::fault_free(),
                }),
                weight: 1,
                fault_free: true,
            },
            Family {
                scenario: Box::new(MrpScenario {
                    which: Which::C15,
                    name: "tap-retransmission-heavy",
                    knobs: MrpKnobs {
                        slow_handlers: true,
                        cancel_handlers: true,
                        ..MrpKnobs::full()
                    },
                }),
                weight: 6,
                fault_free: false,
            },
            // Outside the stated quantifier (real SC/IM traffic is turn-based): one exchange used
            // full duplex. What this mix finds is triaged and listed, see known_findings.json
            Family {
                scenario: Box::new(MrpScenario {
                    which: Which::C15,
                    name: "tap-full-duplex-extra",
                    knobs: MrpKnobs {
                        allow_both: true,
                        ..MrpKnobs::full()
                    },
                }),
                weight: 1,
                fault_free: false,
            },
            Family {
                scenario: Box::new(ExchIdWrap),
                weight: 2,
                fault_free: false,
            },
            Family {
                scenario: Box::new(HandshakeRetransmissions),
                weight: 3,
                fault_free: false,
            },
        ],
        rule: "tap families: mrp-world runs (see C09) under loss patterns forcing retransmissions, duplicates making the peer re-acknowledge while a retransmission is pending, applications sending twice in a row; every datagram on the wire is grouped by (sender incarnation, wire session id, counter, source node id, destination) and the groups must be bit-identical, new counters strictly increasing; snapshots: unique local session ids and exchange ids. handshakes-under-loss: two real commissioners commission and operate one real device under loss / duplication / delay (a device restart in 40 % of the runs forces CASE again, with resumption), all datagrams of a node with the same session id and counter must be bit-identical (PASE, Sigma1/2/3, Sigma2Resume, IM requests and responses). wrap family: one allocation history of > 66 000 initiator exchanges with 1-3 long-lived exchanges kept open across the 16-bit wrap. distinct = distinct trace hash; non-trivial = a message was received and a fault or scheduling deviation fired (tap) / the id space wrapped (wrap)",
        assumptions: vec![
            "harness, tap decoder and oracles trusted",
            "handshake traffic (Sigma2/3 retransmissions, which rs-matter rebuilds and signs anew for every transmission) is covered by the family handshakes-under-loss: real PASE / CASE / IM between a device and two commissioners under 5-30 % loss, every datagram under one (session id, counter) compared bit for bit",
            "sampling, not enumeration",
        ],
        real: "rs-matter transport, sessions (message counters, exchange id allocation), exchanges, MRP (piggy-backed acknowledgements on retransmissions), AES-CCM",
        stubbed: "network, clock, RNG; sessions planted; applications scripted",
        budget_s: (60, 600),
    }]
}
