//! C15: nonce uniqueness. Tap oracle over retransmission-heavy mrp-world runs, snapshot oracle
//! for local session / exchange identifiers, and a long allocation history crossing the 16-bit
//! exchange-id wrap with long-lived exchanges.

use std::collections::BTreeSet;

use rs_matter::crypto::default_crypto;
use rs_matter::dm::devices::test::{DAC_PRIVKEY, TEST_DEV_ATT, TEST_DEV_COMM, TEST_DEV_DET};
use rs_matter::transport::exchange::Exchange;
use rs_matter::Matter;
use serde_json::json;

use crate::props::mrp_props::{MrpScenario, Which};
use crate::props::{Family, PropertyDef};
use crate::runner::{Outcome, Scenario};
use crate::tape::{self, NodeRng, Rng};
use crate::worlds::mrp::{plant, Kind, Planted};
use crate::worlds::mrp_drive::MrpKnobs;

pub struct ExchIdWrap;

impl Scenario for ExchIdWrap {
    fn property(&self) -> &'static str {
        "C15"
    }
    fn name(&self) -> &'static str {
        "exchange-id-wrap"
    }

    fn run(&self, seed: u64) -> Outcome {
        let mut out = Outcome::default();
        let matter = Matter::new(&TEST_DEV_DET, TEST_DEV_COMM, &TEST_DEV_ATT, 5540);
        let crypto = default_crypto(NodeRng(Rng::new(seed ^ 0x15)), DAC_PRIVKEY);
        matter.with_state(|state| {
            state.fabrics.add_with_post_init(|_| Ok(())).unwrap();
        });
        let n_sessions = 1 + tape::choose(3) as usize;
        for i in 0..n_sessions {
            let p = Planted {
                kind: Kind::Case,
                a: 0,
                b: 1,
                a_local_sid: 10 + i as u16,
                b_local_sid: 20 + i as u16,
                a_nodeid: 1,
                b_nodeid: 2,
                key_ab: [1; 16],
                key_ba: [2; 16],
            };
            plant(&matter, &crypto, 0, &p).unwrap();
        }
        let sess_ids: Vec<u32> = matter.verif_snapshot().sessions.iter().map(|s| s.id).collect();

        // History: allocations of short-lived exchanges, with up to 3 long-lived ones opened at
        // tape-chosen points and kept open across the 16-bit wrap of the id space
        let total = 66_000 + tape::choose(4) as usize * 1_000;
        let n_long = 1 + tape::choose(3) as usize;
        let mut long_at: Vec<usize> = (0..n_long).map(|_| tape::choose(2_000) as usize).collect();
        long_at.sort();
        let mut long: Vec<Exchange<'_>> = Vec::new();
        let mut allocs = 0u64;
        for step in 0..total {
            let sess = sess_ids[(step * 7 + step / 5) % sess_ids.len()];
            let Ok(ex) = Exchange::initiate_for_session(&matter, &crypto, sess) else {
                continue;
            };
            allocs += 1;
            // Uniqueness among live initiator exchanges (they share one id space per node)
            let snap = matter.verif_snapshot();
            let mut ids = BTreeSet::new();
            for s in &snap.sessions {
                for e in s.exchanges.iter().filter(|e| e.initiator) {
                    if !ids.insert(e.exch_id) {
                        out.violate(
                            "C15-duplicate-initiator-exchange-id",
                            format!(
                                "after {allocs} allocations ({} long-lived exchanges open) exchange id {:#x} is in use by two live initiator exchanges",
                                long.len(),
                                e.exch_id
                            ),
                        );
                    }
                }
            }
            if long_at.first() == Some(&step) || (long_at.first().map(|s| *s < step).unwrap_or(false)) {
                long_at.remove(0);
                long.push(ex);
            } else {
                drop(ex);
            }
            if !out.violations.is_empty() {
                break;
            }
        }
        let wraps = allocs / 65_535;
        crate::kernel::trace("wrap", allocs, wraps, &[]);
        out.count("exchange_allocations", allocs);
        out.count("probe_exchange_id_wraps", wraps);
        out.count("long_lived_exchanges", long.len() as u64);
        out.nontrivial = wraps > 0;
        out.state_sigs.push(((n_sessions as u64) << 8) | n_long as u64);
        out.sample = Some(json!({"sessions": n_sessions, "long_lived": n_long, "allocations": allocs, "id_wraps": wraps}));
        drop(long);
        out
    }
}

pub fn defs() -> Vec<PropertyDef> {
    vec![PropertyDef {
        id: "C15",
        level: "exploration",
        families: vec![
            Family {
                scenario: Box::new(MrpScenario {
                    which: Which::C15,
                    name: "tap-fault-free",
                    knobs: MrpKnobs::fault_free(),
                }),
                weight: 1,
                fault_free: true,
            },
            Family {
                scenario: Box::new(MrpScenario {
                    which: Which::C15,
                    name: "tap-retransmission-heavy",
                    knobs: MrpKnobs {
                        slow_handlers: true,
                        cancel_handlers: true,
                        ..MrpKnobs::full()
                    },
                }),
                weight: 6,
                fault_free: false,
            },
            // Outside the stated quantifier (real SC/IM traffic is turn-based): one exchange used
            // full duplex. What this mix finds is triaged and listed, see known_findings.json
            Family {
                scenario: Box::new(MrpScenario {
                    which: Which::C15,
                    name: "tap-full-duplex-extra",
                    knobs: MrpKnobs {
                        allow_both: true,
                        ..MrpKnobs::full()
                    },
                }),
                weight: 1,
                fault_free: false,
            },
            Family {
                scenario: Box::new(ExchIdWrap),
                weight: 2,
                fault_free: false,
            },
        ],
        rule: "tap families: mrp-world runs (see C09) under loss patterns forcing retransmissions, duplicates making the peer re-acknowledge while a retransmission is pending, applications sending twice in a row; every datagram on the wire is grouped by (sender incarnation, wire session id, counter, source node id, destination) and the groups must be bit-identical, new counters strictly increasing; snapshots: unique local session ids and exchange ids. wrap family: one allocation history of > 66 000 initiator exchanges with 1-3 long-lived exchanges kept open across the 16-bit wrap. distinct = distinct trace hash; non-trivial = a message was received and a fault or scheduling deviation fired (tap) / the id space wrapped (wrap)",
        assumptions: vec![
            "harness, tap decoder and oracles trusted",
            "handshake traffic (Sigma2/3 retransmissions with randomised signatures) is covered by the same tap oracle in the CASE world, not in these families",
            "sampling, not enumeration",
        ],
        real: "rs-matter transport, sessions (message counters, exchange id allocation), exchanges, MRP (piggy-backed acknowledgements on retransmissions), AES-CCM",
        stubbed: "network, clock, RNG; sessions planted; applications scripted",
        budget_s: (60, 600),
    }]
}
