//! The harness's own Matter TLV codec (tree form). Independent of rs-matter's `tlv` module:
//! what the device puts on the wire is decoded with this strict reader, so "every message is
//! well-formed on its own" is decided by a second implementation.

use std::fmt;

#[derive(Clone, PartialEq, Eq, Hash, PartialOrd, Ord)]
pub enum Tag {
    Anon,
    Ctx(u8),
    /// Profile-specific tags (not used by the Interaction Model); raw tag bytes
    Other(u8, Vec<u8>),
}

impl fmt::Debug for Tag {
    fn fmt(&self, f: &mut fmt::Formatter<'_>) -> fmt::Result {
        match self {
            Tag::Anon => write!(f, "_"),
            Tag::Ctx(n) => write!(f, "{}", n),
            Tag::Other(c, b) => write!(f, "T{}{:02x?}", c, b),
        }
    }
}

#[derive(Clone, PartialEq)]
pub enum Val {
    Int(i64),
    UInt(u64),
    Bool(bool),
    F32(u32),
    F64(u64),
    Utf8(Vec<u8>),
    Bytes(Vec<u8>),
    Null,
    Struct(Vec<(Tag, Val)>),
    Array(Vec<(Tag, Val)>),
    List(Vec<(Tag, Val)>),
}

impl fmt::Debug for Val {
    fn fmt(&self, f: &mut fmt::Formatter<'_>) -> fmt::Result {
        match self {
            Val::Int(v) => write!(f, "{}i", v),
            Val::UInt(v) => write!(f, "{}", v),
            Val::Bool(v) => write!(f, "{}", v),
            Val::F32(v) => write!(f, "f32:{:x}", v),
            Val::F64(v) => write!(f, "f64:{:x}", v),
            Val::Utf8(v) => write!(f, "\"{}\"", String::from_utf8_lossy(v)),
            Val::Bytes(v) => {
                if v.len() > 12 {
                    write!(f, "h'{:02x?}..({})'", &v[..8], v.len())
                } else {
                    write!(f, "h'{:02x?}'", v)
                }
            }
            Val::Null => write!(f, "null"),
            Val::Struct(m) => {
                write!(f, "{{")?;
                for (i, (t, v)) in m.iter().enumerate() {
                    if i > 0 {
                        write!(f, ", ")?;
                    }
                    write!(f, "{:?}: {:?}", t, v)?;
                }
                write!(f, "}}")
            }
            Val::Array(m) => {
                write!(f, "[")?;
                for (i, (_, v)) in m.iter().enumerate() {
                    if i > 0 {
                        write!(f, ", ")?;
                    }
                    write!(f, "{:?}", v)?;
                }
                write!(f, "]")
            }
            Val::List(m) => {
                write!(f, "(")?;
                for (i, (t, v)) in m.iter().enumerate() {
                    if i > 0 {
                        write!(f, ", ")?;
                    }
                    write!(f, "{:?}: {:?}", t, v)?;
                }
                write!(f, ")")
            }
        }
    }
}

impl Val {
    pub fn members(&self) -> &[(Tag, Val)] {
        match self {
            Val::Struct(m) | Val::Array(m) | Val::List(m) => m,
            _ => &[],
        }
    }

    /// First member with context tag `n`
    pub fn ctx(&self, n: u8) -> Option<&Val> {
        self.members()
            .iter()
            .find(|(t, _)| *t == Tag::Ctx(n))
            .map(|(_, v)| v)
    }

    pub fn uint(&self) -> Option<u64> {
        match self {
            Val::UInt(v) => Some(*v),
            Val::Int(v) if *v >= 0 => Some(*v as u64),
            _ => None,
        }
    }

    pub fn boolean(&self) -> Option<bool> {
        match self {
            Val::Bool(b) => Some(*b),
            _ => None,
        }
    }

    pub fn bytes(&self) -> Option<&[u8]> {
        match self {
            Val::Bytes(b) | Val::Utf8(b) => Some(b),
            _ => None,
        }
    }

    pub fn is_container(&self) -> bool {
        matches!(self, Val::Struct(_) | Val::Array(_) | Val::List(_))
    }
}

struct Rd<'a> {
    b: &'a [u8],
    pos: usize,
    depth: usize,
}

impl<'a> Rd<'a> {
    fn take(&mut self, n: usize) -> Result<&'a [u8], String> {
        if self.b.len() - self.pos < n {
            return Err(format!("truncated at {} (need {})", self.pos, n));
        }
        let s = &self.b[self.pos..self.pos + n];
        self.pos += n;
        Ok(s)
    }

    fn le(&mut self, n: usize) -> Result<u64, String> {
        let s = self.take(n)?;
        let mut v = 0u64;
        for (i, x) in s.iter().enumerate() {
            v |= (*x as u64) << (8 * i);
        }
        Ok(v)
    }

    /// Reads one element; `Ok(None)` on end-of-container
    fn element(&mut self) -> Result<Option<(Tag, Val)>, String> {
        let ctl = self.take(1)?[0];
        let tag_ctl = ctl >> 5;
        let ty = ctl & 0x1f;
        if ty == 0x18 {
            if tag_ctl != 0 {
                return Err(format!("end-of-container with a tag at {}", self.pos - 1));
            }
            return Ok(None);
        }
        let tag = match tag_ctl {
            0 => Tag::Anon,
            1 => Tag::Ctx(self.take(1)?[0]),
            2 | 4 => Tag::Other(tag_ctl, self.take(2)?.to_vec()),
            3 | 5 => Tag::Other(tag_ctl, self.take(4)?.to_vec()),
            6 => Tag::Other(tag_ctl, self.take(6)?.to_vec()),
            _ => Tag::Other(tag_ctl, self.take(8)?.to_vec()),
        };
        let val = match ty {
            0..=3 => {
                let n = 1usize << ty;
                let raw = self.le(n)?;
                let shift = 64 - 8 * n as u32;
                Val::Int(((raw << shift) as i64) >> shift)
            }
            4..=7 => Val::UInt(self.le(1usize << (ty - 4))?),
            8 => Val::Bool(false),
            9 => Val::Bool(true),
            0x0a => Val::F32(self.le(4)? as u32),
            0x0b => Val::F64(self.le(8)?),
            0x0c..=0x0f => {
                let len = self.le(1usize << (ty - 0x0c))?;
                if len > self.b.len() as u64 {
                    return Err(format!("string length {} beyond the message", len));
                }
                Val::Utf8(self.take(len as usize)?.to_vec())
            }
            0x10..=0x13 => {
                let len = self.le(1usize << (ty - 0x10))?;
                if len > self.b.len() as u64 {
                    return Err(format!("string length {} beyond the message", len));
                }
                Val::Bytes(self.take(len as usize)?.to_vec())
            }
            0x14 => Val::Null,
            0x15..=0x17 => {
                self.depth += 1;
                if self.depth > 32 {
                    return Err("nesting too deep".into());
                }
                let mut members = Vec::new();
                while let Some(m) = self.element()? {
                    match ty {
                        0x15 => {
                            if m.0 == Tag::Anon {
                                return Err(format!("anonymous member in a struct at {}", self.pos));
                            }
                        }
                        0x16 => {
                            if m.0 != Tag::Anon {
                                return Err(format!("tagged member in an array at {}", self.pos));
                            }
                        }
                        _ => {}
                    }
                    members.push(m);
                }
                self.depth -= 1;
                match ty {
                    0x15 => Val::Struct(members),
                    0x16 => Val::Array(members),
                    _ => Val::List(members),
                }
            }
            _ => return Err(format!("reserved element type {:#x} at {}", ty, self.pos - 1)),
        };
        Ok(Some((tag, val)))
    }
}

/// Decode exactly one top-level element spanning the whole buffer
pub fn decode(b: &[u8]) -> Result<(Tag, Val), String> {
    let mut rd = Rd { b, pos: 0, depth: 0 };
    let el = rd
        .element()?
        .ok_or_else(|| "end-of-container at top level".to_string())?;
    if rd.pos != b.len() {
        return Err(format!("{} trailing bytes after the top-level element", b.len() - rd.pos));
    }
    Ok(el)
}

fn put_tag(out: &mut Vec<u8>, tag: &Tag, ty: u8) {
    match tag {
        Tag::Anon => out.push(ty),
        Tag::Ctx(n) => {
            out.push(0x20 | ty);
            out.push(*n);
        }
        Tag::Other(c, b) => {
            out.push((c << 5) | ty);
            out.extend_from_slice(b);
        }
    }
}

pub fn encode(tag: &Tag, val: &Val, out: &mut Vec<u8>) {
    match val {
        Val::Int(v) => {
            let (ty, n) = if *v >= i8::MIN as i64 && *v <= i8::MAX as i64 {
                (0, 1)
            } else if *v >= i16::MIN as i64 && *v <= i16::MAX as i64 {
                (1, 2)
            } else if *v >= i32::MIN as i64 && *v <= i32::MAX as i64 {
                (2, 4)
            } else {
                (3, 8)
            };
            put_tag(out, tag, ty);
            out.extend_from_slice(&v.to_le_bytes()[..n]);
        }
        Val::UInt(v) => {
            let (ty, n) = if *v <= u8::MAX as u64 {
                (4, 1)
            } else if *v <= u16::MAX as u64 {
                (5, 2)
            } else if *v <= u32::MAX as u64 {
                (6, 4)
            } else {
                (7, 8)
            };
            put_tag(out, tag, ty);
            out.extend_from_slice(&v.to_le_bytes()[..n]);
        }
        Val::Bool(b) => put_tag(out, tag, if *b { 9 } else { 8 }),
        Val::F32(v) => {
            put_tag(out, tag, 0x0a);
            out.extend_from_slice(&v.to_le_bytes());
        }
        Val::F64(v) => {
            put_tag(out, tag, 0x0b);
            out.extend_from_slice(&v.to_le_bytes());
        }
        Val::Utf8(b) | Val::Bytes(b) => {
            let base = if matches!(val, Val::Utf8(_)) { 0x0c } else { 0x10 };
            if b.len() <= 0xff {
                put_tag(out, tag, base);
                out.push(b.len() as u8);
            } else {
                put_tag(out, tag, base + 1);
                out.extend_from_slice(&(b.len() as u16).to_le_bytes());
            }
            out.extend_from_slice(b);
        }
        Val::Null => put_tag(out, tag, 0x14),
        Val::Struct(m) | Val::Array(m) | Val::List(m) => {
            let ty = match val {
                Val::Struct(_) => 0x15,
                Val::Array(_) => 0x16,
                _ => 0x17,
            };
            put_tag(out, tag, ty);
            for (t, v) in m {
                encode(t, v, out);
            }
            out.push(0x18);
        }
    }
}

pub fn to_bytes(val: &Val) -> Vec<u8> {
    let mut out = Vec::new();
    encode(&Tag::Anon, val, &mut out);
    out
}

/// Builder helpers
pub fn st(members: Vec<(u8, Val)>) -> Val {
    Val::Struct(members.into_iter().map(|(t, v)| (Tag::Ctx(t), v)).collect())
}

pub fn li(members: Vec<(u8, Val)>) -> Val {
    Val::List(members.into_iter().map(|(t, v)| (Tag::Ctx(t), v)).collect())
}

pub fn arr(members: Vec<Val>) -> Val {
    Val::Array(members.into_iter().map(|v| (Tag::Anon, v)).collect())
}

#[cfg(test)]
mod tests {
    use super::*;

    #[test]
    fn roundtrip() {
        let v = st(vec![
            (0, Val::UInt(300)),
            (1, arr(vec![Val::Int(-5), Val::Bytes(vec![1, 2, 3]), Val::Null])),
            (2, li(vec![(3, Val::Bool(true))])),
        ]);
        let b = to_bytes(&v);
        let (t, d) = decode(&b).unwrap();
        assert_eq!(t, Tag::Anon);
        assert_eq!(d, v);
        assert!(decode(&b[..b.len() - 1]).is_err());
        let mut c = b.clone();
        c.push(0);
        assert!(decode(&c).is_err());
    }
}
