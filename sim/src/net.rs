//! Simulated datagram network with an adversary and a wire tap.

use std::cell::RefCell;
use std::collections::{BTreeMap, VecDeque};
use std::net::{IpAddr, Ipv6Addr, SocketAddr, SocketAddrV6};
use std::rc::Rc;
use std::sync::Arc;

use rs_matter::error::{Error, ErrorCode};
use rs_matter::transport::network::{Address, NetworkMulticast, NetworkReceive, NetworkSend};

use crate::kernel::{self, NodeWake};

pub const PORT: u16 = 5540;

/// The UDP address of node `n`
pub fn node_addr(n: usize) -> Address {
    Address::Udp(SocketAddr::V6(SocketAddrV6::new(
        Ipv6Addr::new(0xfd00, 0, 0, 0, 0, 0, 0, 1 + n as u16),
        PORT,
        0,
        0,
    )))
}

pub fn addr_node(addr: &Address) -> Option<usize> {
    match addr {
        Address::Udp(SocketAddr::V6(a)) => {
            let s = a.ip().segments();
            if s[0] == 0xfd00 && s[7] >= 1 {
                Some(s[7] as usize - 1)
            } else {
                None
            }
        }
        _ => None,
    }
}

fn addr_key(addr: &Address) -> Vec<u8> {
    match addr {
        Address::Udp(SocketAddr::V6(a)) => {
            let mut v = vec![6u8];
            v.extend_from_slice(&a.ip().octets());
            v.extend_from_slice(&a.port().to_le_bytes());
            v
        }
        Address::Udp(SocketAddr::V4(a)) => {
            let mut v = vec![4u8];
            v.extend_from_slice(&a.ip().octets());
            v.extend_from_slice(&a.port().to_le_bytes());
            v
        }
        Address::Tcp(a) => {
            let mut v = vec![7u8];
            v.extend_from_slice(a.to_string().as_bytes());
            v
        }
        Address::Btp(b) => {
            let mut v = vec![8u8];
            v.extend_from_slice(&b.0);
            v
        }
    }
}

/// What the adversary does with one copy of a datagram
#[derive(Clone, Debug)]
pub struct Fate {
    pub delay: u64,
    /// Replacement bytes (corruption), if any
    pub bytes: Option<Vec<u8>>,
    /// Deliver to this node instead of the addressed one
    pub redirect: Option<usize>,
    /// Pretend it came from this node
    pub spoof_src: Option<usize>,
}

impl Fate {
    pub fn deliver(delay: u64) -> Self {
        Fate {
            delay,
            bytes: None,
            redirect: None,
            spoof_src: None,
        }
    }
}

/// Per-datagram adversary. An empty result drops the datagram.
pub trait Policy {
    fn decide(&mut self, rec: &TapSend) -> Vec<Fate>;
}

/// Lossless in-order network with fixed latency
pub struct Benign(pub u64);

impl Policy for Benign {
    fn decide(&mut self, _rec: &TapSend) -> Vec<Fate> {
        vec![Fate::deliver(self.0)]
    }
}

#[derive(Clone, Debug)]
pub struct TapSend {
    pub id: u64,
    pub time: u64,
    pub local_time: u64,
    pub src: usize,
    pub src_incarnation: u32,
    pub dst: Address,
    pub bytes: Vec<u8>,
    /// Number of copies scheduled for delivery
    pub copies: u32,
}

#[derive(Clone, Debug)]
pub enum TapEvent {
    Send(TapSend),
    /// A copy was put into the inbox of `node` (or discarded because the node is down/full)
    Deliver {
        id: u64,
        time: u64,
        node: usize,
        accepted: bool,
        modified: bool,
        bytes: Option<Vec<u8>>,
    },
    /// The transport of `node` took a datagram out of its socket
    Consume {
        id: u64,
        time: u64,
        node: usize,
        modified: bool,
    },
}

#[derive(Default, Clone, Debug)]
pub struct NetStats {
    pub sent: u64,
    pub dropped: u64,
    pub duplicated: u64,
    pub delayed: u64,
    pub corrupted: u64,
    pub redirected: u64,
    pub delivered: u64,
    pub lost_down: u64,
    pub lost_overflow: u64,
    pub send_errors: u64,
    pub recv_errors: u64,
}

struct Datagram {
    id: u64,
    from: Address,
    bytes: Vec<u8>,
    modified: bool,
}

struct Endpoint {
    node: usize,
    inbox: VecDeque<Datagram>,
    wake: Arc<NodeWake>,
    up: bool,
    incarnation: u32,
    groups: Vec<IpAddr>,
    /// Pending injected failures
    fail_send: u32,
    fail_recv: u32,
    /// When set, the node has crashed in the middle of a poll: whatever it still emits is discarded
    frozen: Option<Rc<std::cell::Cell<bool>>>,
}

pub struct NetInner {
    endpoints: BTreeMap<Vec<u8>, Endpoint>,
    pub tap: Vec<TapEvent>,
    policy: Box<dyn Policy>,
    pub stats: NetStats,
    next_id: u64,
    inbox_cap: usize,
}

#[derive(Clone)]
pub struct Net(pub Rc<RefCell<NetInner>>);

impl Net {
    pub fn new(policy: Box<dyn Policy>) -> Self {
        Net(Rc::new(RefCell::new(NetInner {
            endpoints: BTreeMap::new(),
            tap: Vec::new(),
            policy,
            stats: NetStats::default(),
            next_id: 0,
            inbox_cap: 64,
        })))
    }

    pub fn set_policy(&self, policy: Box<dyn Policy>) {
        self.0.borrow_mut().policy = policy;
    }

    /// Attach (or re-attach after a restart) node `node`. Pending inbox content is discarded.
    pub fn attach(&self, node: usize, wake: Arc<NodeWake>, incarnation: u32) -> (SimSend, SimRecv, SimMulticast) {
        let addr = node_addr(node);
        let mut inner = self.0.borrow_mut();
        inner.endpoints.insert(
            addr_key(&addr),
            Endpoint {
                node,
                inbox: VecDeque::new(),
                wake,
                up: true,
                incarnation,
                groups: Vec::new(),
                fail_send: 0,
                fail_recv: 0,
                frozen: None,
            },
        );
        (
            SimSend {
                net: self.clone(),
                node,
            },
            SimRecv {
                net: self.clone(),
                node,
            },
            SimMulticast {
                net: self.clone(),
                node,
            },
        )
    }

    pub fn set_up(&self, node: usize, up: bool) {
        let mut inner = self.0.borrow_mut();
        if let Some(ep) = inner.endpoints.get_mut(&addr_key(&node_addr(node))) {
            ep.up = up;
            if !up {
                ep.inbox.clear();
            }
        }
    }

    pub fn set_frozen_flag(&self, node: usize, flag: Rc<std::cell::Cell<bool>>) {
        if let Some(ep) = self.0.borrow_mut().endpoints.get_mut(&addr_key(&node_addr(node))) {
            ep.frozen = Some(flag);
        }
    }

    pub fn fail_next_send(&self, node: usize, n: u32) {
        if let Some(ep) = self.0.borrow_mut().endpoints.get_mut(&addr_key(&node_addr(node))) {
            ep.fail_send += n;
        }
    }

    pub fn fail_next_recv(&self, node: usize, n: u32) {
        if let Some(ep) = self.0.borrow_mut().endpoints.get_mut(&addr_key(&node_addr(node))) {
            ep.fail_recv += n;
            ep.wake.set();
        }
    }

    pub fn stats(&self) -> NetStats {
        self.0.borrow().stats.clone()
    }

    pub fn take_tap(&self) -> Vec<TapEvent> {
        std::mem::take(&mut self.0.borrow_mut().tap)
    }

    pub fn tap_len(&self) -> usize {
        self.0.borrow().tap.len()
    }

    pub fn inbox_len(&self, node: usize) -> usize {
        self.0
            .borrow()
            .endpoints
            .get(&addr_key(&node_addr(node)))
            .map(|e| e.inbox.len())
            .unwrap_or(0)
    }

    /// Inject a datagram as if sent by `src` (harness-made traffic: raw peers, replays)
    pub fn inject(&self, src: usize, dst: Address, bytes: &[u8], delay: u64) -> u64 {
        let id = {
            let mut inner = self.0.borrow_mut();
            let id = inner.next_id;
            inner.next_id += 1;
            inner.stats.sent += 1;
            let rec = TapSend {
                id,
                time: kernel::now(),
                local_time: kernel::node_local_now(src),
                src,
                src_incarnation: 0,
                dst,
                bytes: bytes.to_vec(),
                copies: 1,
            };
            kernel::trace("inject", src as u64, id, bytes);
            inner.tap.push(TapEvent::Send(rec));
            id
        };
        self.schedule(id, src, dst, Fate::deliver(delay), bytes.to_vec());
        id
    }

    fn schedule(&self, id: u64, src: usize, dst: Address, fate: Fate, orig: Vec<u8>) {
        let net = self.clone();
        let modified = fate.bytes.is_some() || fate.redirect.is_some() || fate.spoof_src.is_some();
        let bytes = fate.bytes.unwrap_or(orig);
        let from = node_addr(fate.spoof_src.unwrap_or(src));
        let redirect = fate.redirect;
        kernel::after(fate.delay, move || {
            let mut inner = net.0.borrow_mut();
            let inner = &mut *inner;
            let now = kernel::now();

            let targets: Vec<Vec<u8>> = if let Some(r) = redirect {
                vec![addr_key(&node_addr(r))]
            } else if is_multicast(&dst) {
                let ip = match dst {
                    Address::Udp(a) => a.ip(),
                    _ => unreachable!(),
                };
                inner
                    .endpoints
                    .iter()
                    .filter(|(_, e)| e.groups.contains(&ip) && e.node != src)
                    .map(|(k, _)| k.clone())
                    .collect()
            } else {
                vec![addr_key(&dst)]
            };

            for key in targets {
                let Some(ep) = inner.endpoints.get_mut(&key) else {
                    inner.stats.lost_down += 1;
                    continue;
                };
                let accepted = if !ep.up {
                    inner.stats.lost_down += 1;
                    false
                } else if ep.inbox.len() >= inner.inbox_cap {
                    inner.stats.lost_overflow += 1;
                    false
                } else {
                    ep.inbox.push_back(Datagram {
                        id,
                        from,
                        bytes: bytes.clone(),
                        modified,
                    });
                    ep.wake.set();
                    inner.stats.delivered += 1;
                    true
                };
                kernel::trace("deliver", ep.node as u64, id, &bytes);
                inner.tap.push(TapEvent::Deliver {
                    id,
                    time: now,
                    node: ep.node,
                    accepted,
                    modified,
                    bytes: modified.then(|| bytes.clone()),
                });
            }
        });
    }
}

fn is_multicast(addr: &Address) -> bool {
    match addr {
        Address::Udp(a) => a.ip().is_multicast(),
        _ => false,
    }
}

pub struct SimSend {
    net: Net,
    node: usize,
}

pub struct SimRecv {
    net: Net,
    node: usize,
}

pub struct SimMulticast {
    net: Net,
    node: usize,
}

impl NetworkSend for SimSend {
    async fn send_to(&mut self, data: &[u8], addr: Address) -> Result<(), Error> {
        let (rec, fates) = {
            let mut inner = self.net.0.borrow_mut();
            let inner = &mut *inner;
            let key = addr_key(&node_addr(self.node));
            let ep = inner.endpoints.get_mut(&key).expect("attached");
            if matches!(&ep.frozen, Some(f) if f.get()) {
                kernel::trace("send_frozen", self.node as u64, 0, &[]);
                return Ok(());
            }
            if ep.fail_send > 0 {
                ep.fail_send -= 1;
                inner.stats.send_errors += 1;
                kernel::trace("send_err", self.node as u64, 0, &[]);
                return Err(ErrorCode::StdIoError.into());
            }
            let id = inner.next_id;
            inner.next_id += 1;
            inner.stats.sent += 1;
            let mut rec = TapSend {
                id,
                time: kernel::now(),
                local_time: kernel::node_local_now(self.node),
                src: self.node,
                src_incarnation: ep.incarnation,
                dst: addr,
                bytes: data.to_vec(),
                copies: 0,
            };
            kernel::trace("send", self.node as u64, id, data);
            let fates = inner.policy.decide(&rec);
            rec.copies = fates.len() as u32;
            match fates.len() {
                0 => inner.stats.dropped += 1,
                1 => {}
                n => inner.stats.duplicated += n as u64 - 1,
            }
            for f in &fates {
                if f.bytes.is_some() {
                    inner.stats.corrupted += 1;
                }
                if f.redirect.is_some() || f.spoof_src.is_some() {
                    inner.stats.redirected += 1;
                }
            }
            inner.tap.push(TapEvent::Send(rec.clone()));
            (rec, fates)
        };
        for fate in fates {
            self.net
                .schedule(rec.id, self.node, addr, fate, rec.bytes.clone());
        }
        Ok(())
    }
}

impl NetworkReceive for SimRecv {
    async fn wait_available(&mut self) -> Result<(), Error> {
        let net = self.net.clone();
        let node = self.node;
        core::future::poll_fn(move |_cx| {
            let mut inner = net.0.borrow_mut();
            let inner = &mut *inner;
            let ep = inner
                .endpoints
                .get_mut(&addr_key(&node_addr(node)))
                .expect("attached");
            if ep.fail_recv > 0 {
                ep.fail_recv -= 1;
                inner.stats.recv_errors += 1;
                kernel::trace("recv_err", node as u64, 0, &[]);
                return core::task::Poll::Ready(Err(ErrorCode::StdIoError.into()));
            }
            if ep.inbox.is_empty() {
                // The network wakes the node's (single) waker on delivery
                core::task::Poll::Pending
            } else {
                core::task::Poll::Ready(Ok(()))
            }
        })
        .await
    }

    async fn recv_from(&mut self, buffer: &mut [u8]) -> Result<(usize, Address), Error> {
        self.wait_available().await?;
        let mut inner = self.net.0.borrow_mut();
        let inner = &mut *inner;
        let ep = inner
            .endpoints
            .get_mut(&addr_key(&node_addr(self.node)))
            .expect("attached");
        let dg = ep.inbox.pop_front().expect("non-empty");
        let len = dg.bytes.len().min(buffer.len());
        buffer[..len].copy_from_slice(&dg.bytes[..len]);
        kernel::trace("consume", self.node as u64, dg.id, &[]);
        inner.tap.push(TapEvent::Consume {
            id: dg.id,
            time: kernel::now(),
            node: self.node,
            modified: dg.modified,
        });
        Ok((len, dg.from))
    }
}

impl NetworkMulticast for SimMulticast {
    async fn join(&mut self, addr: IpAddr) -> Result<(), Error> {
        let mut inner = self.net.0.borrow_mut();
        if let Some(ep) = inner.endpoints.get_mut(&addr_key(&node_addr(self.node))) {
            if !ep.groups.contains(&addr) {
                ep.groups.push(addr);
            }
        }
        Ok(())
    }

    async fn leave(&mut self, addr: IpAddr) -> Result<(), Error> {
        let mut inner = self.net.0.borrow_mut();
        if let Some(ep) = inner.endpoints.get_mut(&addr_key(&node_addr(self.node))) {
            ep.groups.retain(|g| *g != addr);
        }
        Ok(())
    }
}
