#!/bin/sh
# Process-level determinism test: every (scenario family, run index) is executed in two fresh
# processes (second one with other unrelated environment / working directory / thread setting);
# the first output line (seed, tape length, trace hash, event count, simulated time) must be identical.
#   selftest_procs.sh [runs per family, default 25] [first run index, default 0]
DIR="$(cd "$(dirname "$0")" && pwd)"
N=${1:-25}; FIRST=${2:-0}
BIN="$DIR/sim/target/sim/rsm-sim"
export VERIF_DIR="$DIR"
bad=0; total=0
"$BIN" list | while read id fams; do
  for fam in $(echo "$fams" | tr ',' ' '); do
    i=$FIRST
    while [ $i -lt $((FIRST+N)) ]; do
      a=$("$BIN" run "$id" "$fam" $i 2>/dev/null | head -n 1)
      b=$(cd / && VERIF_THREADS=3 LANG=C TZ=UTC FOO=bar "$BIN" run "$id" "$fam" $i 2>/dev/null | head -n 1)
      total=$((total+1))
      if [ "$a" != "$b" ] || [ -z "$a" ]; then
        echo "DIVERGED $id $fam run=$i"; echo "  $a"; echo "  $b"; bad=$((bad+1))
      fi
      i=$((i+1))
    done
    echo "procs-determinism property=$id scenario=$fam runs=$N diverged_so_far=$bad"
  done
done
