#!/usr/bin/env python3
"""Regenerates MANIFEST.json from the table below (single source of truth for the interface)."""
import json, subprocess

HOOK_COMMITS = subprocess.run(
    ["git", "-C", "/repo", "log", "--format=%h %s", "--grep=^verif hook"], capture_output=True, text=True
).stdout.strip().splitlines()

COMMON_NOTE = (
    "Trusted: the simulator (executor, clock, network, KV, tape, shrinker), the oracles and reference models, "
    "the independent wire decoder. Assumes the seams are faithful to their contracts (UDP may lose/duplicate/"
    "reorder/delay/corrupt but not forge; KvBlobStore ops atomic per key and durable on Ok; monotonic clock), "
    "RustCrypto primitives correct, default single-threaded configuration. Sampling, not enumeration."
)

CHECKS = {
    "C09": dict(
        level="exploration",
        text="Seeded search over schedules and per-datagram fault sequences of two real rs-matter stacks exchanging "
             "scripted reliable/unreliable messages over planted PASE/CASE sessions; oracles O1-O6 over the recorded "
             "history (at-most-once + order, success implies delivery and acknowledgement, transmit timeout when "
             "nothing gets through, success when a copy and a fresh acknowledgement got through, back-off lower bound, "
             "duplicates re-acknowledged). A clean batch is evidence proportional to the reported counts.",
        design="DESIGN.md §4 C09",
        technique="deterministic simulation with fault injection: seeded schedule + network-fault search, history oracles",
    ),
    "C10": dict(
        level="exploration",
        text="Same two-stack world with late/never-accepting handlers, RX messages held, handlers cancelled at "
             "tape-chosen await points, full-duplex steps; checked: delivery only to the exchange named by the "
             "message, exchange creation only by eligible initiator messages, answers to unknown exchanges dropped "
             "silently, and bounded liveness after faults stop (traffic dies down, RX/TX slots free, unclaimed "
             "exchanges closed, a probe request per live session is served). Third family: a node without any responder "
             "(pure initiator) receives unsolicited reliable and unreliable messages; its own requests seconds later must "
             "still be answered (the unaccepted messages do not occupy its single RX slot for good). Limit: the two ends draw their "
             "exchange ids independently at random, so a peer-opened exchange carrying the id of a live exchange the node itself "
             "opened on that session (the case in which only the role separates two exchanges) is practically never generated; "
             "seeded defect C10 E (role dropped from the match for exactly that case) is missed, see DESIGN.md §0.6 round 3.",
        design="DESIGN.md §4 C10",
        technique="deterministic simulation with fault injection: schedule/cancellation/fault search, invariants + bounded-liveness oracle",
    ),
}

CHECKS["C04"] = dict(
    level="exploration",
    text="Two layers against one reference model written from the statement (set of accepted counters + maximum + 16-entry window): "
         "(1) counter histories produced by a simulated sender and network adversary (drop, duplicate, reorder within/beyond the window, "
         "jumps, starts around 0 / 2^28 / 2^31 / 2^32-1, up to 20 group senders with LRU eviction and roll-over) fed to the real "
         "RxCtrState / GroupCtrStore and compared verdict by verdict; (2) two real stacks under the datagram adversary with the "
         "receive-window verdict of every datagram (guarded event hook) compared with the model. Layer 1 is honest model-based testing of a "
         "pure state machine driven by simulated network histories; layer 2 is what only a simulator reaches.",
    design="DESIGN.md §4 C04",
    technique="deterministic simulation with fault injection: adversarial arrival histories vs reference model, plus two-stack simulation with per-datagram verdict oracle",
)
CHECKS["C15"] = dict(
    level="exploration",
    text="Wire-tap oracle over two-stack simulations under loss patterns that force retransmissions (incl. piggy-backed acknowledgements "
         "on retransmitted messages): all datagrams with the same (sender incarnation, session, counter, source) are bit-identical; the "
         "counters a session hands out strictly increase and every emitted datagram carries a handed-out counter (guarded event hook); "
         "snapshots: unique local session ids / exchange ids; plus an allocation history of > 66 000 exchanges with long-lived ones across "
         "the 16-bit id wrap.",
    design="DESIGN.md §4 C15",
    technique="deterministic simulation with fault injection: seeded fault/schedule search with wire-tap identity oracle and id-uniqueness invariants",
)

CHECKS["C18"] = dict(
    level="exploration",
    text="Two real Btp engines (central + peripheral) joined by a simulated ordered GATT link with tape-drawn per-segment delays and stalls "
         "(up to beyond the 15 s acknowledgement deadline and the 30 s idle timeout), clock skew and scheduler deviations: every message "
         "arrives exactly once, unmodified, in order (bounded liveness once the link is healthy), no end exceeds the negotiated window, "
         "acknowledgements meet the deadline, good ends never refuse each other. Hostile-peer family: one good engine (either role) fed "
         "generated protocol-violating segments; no panic (overflow checks on), delivered data equals what a reference reassembler derives "
         "from the accepted segments, the good end respects the hostile peer's window.",
    design="DESIGN.md §4 C18",
    technique="deterministic simulation with fault injection: seeded link-stall/schedule search over two engines + hostile segment generator with reference reassembler",
)

CHECKS["C07"] = dict(
    level="exploration",
    text="Real device + two/three real controllers with their own CAs (same operational node id on purpose). Rollback family: a fabric staged "
         "under the fail-safe and used over CASE is rolled back by timer or ArmFailSafe(0); the old controller probes with its stale session "
         "and fresh (resumed) CASE before and after another controller is commissioned into the re-used fabric index. Removal family: "
         "RemoveFabric placed at a tape-chosen millisecond inside the victim's read traffic and CASE handshakes, then the index is re-used. "
         "Oracles: behavioural probes (old credentials never work again, other fabrics keep working) plus invariants on every 100 ms device "
         "probe (no live session / resumption record for a missing fabric or predating the current owner of its index), no panic. Third family: a "
         "committed fabric with a live CASE session and steady reads next to a fabric staged by another commissioner, rolled back by the timer (requests "
         "of the committed fabric arriving around the expiry instant) or by RevokeCommissioning from the committed fabric's administrator: no CASE session "
         "of the untouched fabric ends.",
    design="DESIGN.md §4 C07",
    technique="deterministic simulation with fault injection: seeded placement of rollback/removal vs. traffic, network faults, schedule deviations; invariants + old-credential probes",
)
CHECKS["C08"] = dict(
    level="fault_enumeration",
    text="Full commissioning of a real device by a real Commissioner with one fault plan per run: KvBlobStore error / crash-before / crash-after at "
         "mutating store operation k (every k of the history is hit many times), crash between polls at microsecond resolution, second crash "
         "during recovery, plus light network faults; 200 s for restarts and fail-safe expiry; then the device state (fabric table, fail-safe, "
         "sessions) and the store must agree and be either the pre-arm or the committed state. Further families: an administrator arms the fail-safe "
         "over CASE, rewrites its fabric's ACL, and the fail-safe ends by CommissioningComplete / time-out / ArmFailSafe(0) / device restart (the ACL is "
         "the new one only after a completion, also across a later restart); while a commissioner holds a fail-safe armed over PASE, the administrator "
         "of another fabric sends ArmFailSafe(30) / ArmFailSafe(0) / CommissioningComplete over CASE (refused, nothing changes). Limits: Ethernet device "
         "(network credentials not exercised); the full out-of-order command matrix of the statement is sampled only through these scenarios.",
    design="DESIGN.md §4 C08",
    technique="deterministic simulation with fault injection: crash/KV-error enumeration over the store operations of a commissioning history + seeded crash instants",
    note=" Known limit: two-key (fabric + networks) atomicity of a wireless device is not simulated.",
)
CHECKS["C11"] = dict(
    level="fault_enumeration",
    text="Same world as C08. Oracles: a commissioning that was acknowledged to the commissioner survives every crash/restart (fabric table, ACL, "
         "store) and the device is reachable again over a fresh CASE session once faults stop; start-up never fails; nothing of an "
         "unacknowledged attempt is half-present. Further family: two commissioned fabrics, then a confirmed ACL write (optionally while a third "
         "commissioner holds a fail-safe over PASE) or RemoveFabric(1) by fabric 2 (hole in the fabric indices), a crash 0.3-3 s after the confirmation, "
         "restart: the change is there, both / the remaining fabric load, the remaining administrator is served. Limits: group / binding / label writes, "
         "factory reset and resumption-blob corruption listed in the statement are not generated.",
    design="DESIGN.md §4 C11",
    technique="deterministic simulation with fault injection: crash/KV-error enumeration + restart, durability oracle over acknowledged operations",
)

CHECKS["C14"] = dict(
    level="exploration",
    text="im world: a real device (rs-matter Interaction Model behind the real exchange/MRP/transport stack) serves a node composition generated per run "
         "by an instrumented synthetic cluster handler (u32, octet strings and lists of octet strings with sizes concentrated at the chunk boundary; the real "
         "root endpoint in part of the runs); raw-exchange controllers with the harness's own TLV codec read / subscribe with concrete and wildcard paths in "
         "any order with repeats, data-version and event-number filters, and delay their StatusResponses. Faults: loss, duplication, delay, non-FIFO task "
         "schedules, endpoints switched off/on and ACL entries removed between chunks. Oracles over the recorded chunks: every chunk is a well-formed "
         "ReportData on its own (strict independent decoder), only the last lacks MoreChunkedMessages, lists are streamed at element boundaries and "
         "reassemble to the original, each attribute/event selected by the reference model appears exactly as often as selected with the value the device "
         "held, no datagram exceeds the transport maximum, every answer terminates. Limit: the transmit buffer size is a compile-time constant; the "
         "boundary is reached through value sizes.",
    design="DESIGN.md §4 C14",
    technique="deterministic simulation with fault injection: seeded swarm search over compositions, sizes, schedules and network faults; history oracle against a reference expansion model",
)

CHECKS["C06"] = dict(
    level="exploration",
    text="im world with access declarations drawn per element (view/operate/manage/administer, write-only, timed-only, fabric-scoped), generated ACLs "
         "for two fabrics, requesters over CASE sessions of either fabric and over PASE; reads, subscribes, writes and invokes with concrete / wildcard / "
         "absent paths, with and without TimedRequest (in time, expired, mismatching flag), retransmitted and duplicated by the network, endpoints and ACL "
         "entries removed while answers are in flight. Oracles: data and statuses equal the reference model (exists and matches and permitted) bracketed over "
         "every composition/ACL state that existed during the interaction; the instrumented handler runs only for elements the model permits for that "
         "requester and timed state, at most once per request element, never after the timed window known to the controller has run out. Limit: the "
         "fabric-sensitive clause is delegated by rs-matter to the cluster handlers and is only exercised through the real ACL cluster of the root endpoint "
         "in wildcard reads (no oracle on its field filtering).",
    design="DESIGN.md §4 C06",
    technique="deterministic simulation with fault injection: seeded swarm search over compositions, ACLs, requesters, timing and network faults; reference access model as oracle",
)

CHECKS["C13"] = dict(
    level="exploration",
    text="im world: 1-3 subscribers establish subscriptions (concrete and wildcard paths, events, min 0-5 s, max 10-120 s, slow StatusResponses stretching the "
         "priming) while a device script changes attributes / clusters / endpoints / everything, emits events and produces bursts larger than the pending-change "
         "table, triggered by time or by the n-th attribute read (i.e. inside a priming or report); faults: loss / duplication / delay, subscribers answering with "
         "failure / garbage / nothing / late, session eviction (re-planted by the harness), a subscriber going dark. Oracles: after the faults stop and 2 x max "
         "interval + 60 s, every subscription still in the device's table has delivered the final version of every selected attribute and every event emitted "
         "since it was established; reports never start earlier than the minimum interval after the previous successful one; a report arrives at least every "
         "maximum interval; a subscription whose reports keep failing leaves the table within max interval (+45 s) of its last success. Limit: device restart "
         "with persisted subscriptions is not generated.",
    design="DESIGN.md §4 C13",
    technique="deterministic simulation with fault injection: seeded swarm search over change/priming/report interleavings, subscriber misbehaviour and network faults; eventual-consistency and timing oracles over the recorded history",
)

CHECKS["C12"] = dict(
    level="fault_enumeration",
    text="One real node (Matter + Interaction Model + ICD state) on the simulated store and network runs a tape-chosen script: send n group data messages "
         "(Exchange::initiate_group + send through the real transport; counter values read off the wire), emit n events (numbers as handed to the "
         "application), run n Check-In batches the way the interface tells an application to (load_counter, persist_counter, then next_counter / advance_counter; "
         "a failed store is repeated before the next batch), restart. The store is seeded with tape-chosen boundaries (absent, random, next to the wrap of the "
         "28-bit / 32-bit range, epoch multiples); faults are placed at individual mutating store operations: crash before / after the operation, and in one "
         "family an error return. Oracles: no value of a counter is used twice over the lifetime of the store; at the instant a value is used the boundary held "
         "durably by the store covers it. Limits: the Check-In message itself is not sent (needs mDNS); the 64-bit event number wrap is not seeded.",
    design="DESIGN.md §4 C12",
    technique="deterministic simulation with fault injection: crash / store-error placement at individual store operations + restart, uniqueness and durable-coverage oracles over the values used",
)

CHECKS["C03"] = dict(
    level="exploration",
    text="mrp world with 2-3 real stacks and planted PASE / CASE sessions (session ids coinciding across peers and directions in part of the runs), scripted "
         "exchanges with payloads from 0 bytes to the maximum; an on-path adversary accompanies 15-60 % of the secured datagrams with a crafted variant: bit "
         "flip in the plain header / body / tag, truncation, extension, session id or counter transplanted from another live datagram, header spliced on a "
         "foreign body, a foreign datagram, reflection to the sender (opposite direction), redirection to a third node, forged source address, delivered "
         "before or after the genuine one. Oracles: every such datagram gets a transport verdict of 'not authentic / no session' and makes no session "
         "classify a counter (receive window untouched, no exchange created); applications only ever receive content their true peer submitted on that "
         "exchange, step and direction; every genuine datagram decodes under the session keys with the harness's independent AES-CCM codec to exactly what "
         "the peer's exchange received; session keys at the end are the established ones. In a third of the runs the nodes share a real fabric with "
         "four sibling groups on one key set and exchange group data messages (source node id and destination group id in the header); the forgeries then "
         "also hit those optional header fields and the multicast datagrams. Limit: MCSP (group control messages) is not exercised; the tap cross-decode "
         "covers unicast sessions only.",
    design="DESIGN.md §4 C03",
    technique="deterministic simulation with fault injection: seeded search over traffic x per-datagram forgery (corruption, transplant, reflection, misrouting) x schedules; transport-verdict and application-history oracles",
)

CHECKS["C01"] = dict(
    level="exploration",
    text="Real device commissioned by controller X; the device is crashed/restarted 2-5 times so that X runs new CASE handshakes (resumption first, "
         "full Sigma1/2/3 after fallback, persisted resumption cache) while an on-path adversary mutates (bit/byte/truncate/extend), "
         "replays/substitutes, drops, duplicates and delays the handshake datagrams; controller Y with its own CA and the same node id keeps "
         "attempting CASE. Oracles: device CASE sessions only for X's identity and an existing fabric (every 100 ms probe), session pairs (matched by "
         "session ids and addresses, device vs. controller, on every probe and at the end) hold crossed-equal keys, Y never served, X served again once faults stop. Limit: certificate-chain invalidity classes are not generated "
         "(chain predicate = C19, pure function).",
    design="DESIGN.md §4 C01",
    technique="deterministic simulation with fault injection: seeded on-path mutation/replay/loss + crash/restart of the responder, session-agreement invariants",
)
CHECKS["C02"] = dict(
    level="exploration",
    text="Real device with an open basic commissioning window and 2-4 real PASE initiators plus a final honest probe: right/wrong passcode "
         "(up to 25 wrong attempts), full commissioning or PASE only, initiators abandoned (task cancelled) at a tape-chosen microsecond, device "
         "handlers cancelled, on-path mutation/replay of handshake datagrams, loss/dup/delay. Invariants on every 100 ms probe: a PASE session "
         "exists only for a peer that knows the passcode, commissionable advertisement iff window open, failure counter never above 20; wrong "
         "passcode never completes; 21+ failed proofs revoke the window. Further families: a commissioner that knows the passcode whose Pake3 "
         "confirmation is corrupted on the path 21-24 times (no session; window revoked after 20 failed proofs); the administrator revokes the window "
         "within a few network latencies of another commissioner's handshake, device probed every 100 us (no PASE session appears after the window was "
         "seen closed). Limit: enhanced windows (other verifiers) are not generated.",
    design="DESIGN.md §4 C02",
    technique="deterministic simulation with fault injection: seeded interleaving of initiators, cancellation points, on-path mutation; per-step invariants",
)
CHECKS["C20"] = dict(
    level="exploration",
    text="Same runs as C02 (completed, abandoned, malformed, refused handshakes; cancelled handlers and initiators). After traffic stops and 400 s of "
         "simulated time: no reserved session, no exchange, RX/TX slots empty, mDNS rendezvous slots idle on the device and on every initiator; "
         "an honest PASE then succeeds while the window is open. Limit: default table sizes only (the smallest-table build is not exercised).",
    design="DESIGN.md §4 C20",
    technique="deterministic simulation with fault injection: abandonment/cancellation search with bounded-liveness and resource-accounting oracle",
)

# Scenario families added after the second round of seeded defects
_ADD = {
    "C01": " Family expelled-peer-after-index-reuse: three controllers; the second one's fabric is removed by the first while it is reading "
           "(or after it went quiet), a third fabric takes the freed index, the expelled controller - which still holds its credentials and a "
           "resumption record - must not get a session any more.",
    "C02": " Families window-expires-mid-handshake(-delays): a window of 180 s runs out within a few network latencies of one to three handshakes "
           "of another commissioner (device probed every 200 us): no PASE session comes into existence after the expiry, the window is closed "
           "and no longer advertised one polling period later, also while a handshake is in progress. Failed proofs are counted on the wire "
           "(Pake2 sent to an initiator with a wrong passcode), not by the initiator's error code.",
    "C03": " Families raw-peer-header-shapes(-and-forgeries): one stack additionally opens exchanges with a raw peer (harness-made, authentic "
           "under the session keys: a conforming implementation other than rs-matter) which answers with stand-alone acknowledgements and with "
           "messages carrying an acknowledgement counter, a protocol vendor id, or both; the first copy of each of its messages must be taken in "
           "(not classified duplicate / erroneous) and an acknowledgement it carried must end the retransmissions.",
    "C04": " Family system-raw-peer-counters: the two stacks plus an authentic raw peer whose counters start anywhere, jump by up to 2^31 and arrive "
           "dropped / duplicated / reordered. Family system-group-senders-and-forgeries: 2-3 stacks of one real fabric with group keys, group data "
           "messages and unicast traffic with forged variants of the datagrams arriving before or after the authentic ones; per (receiver, group "
           "sender) an authentic message above everything accepted so far is accepted, none twice.",
    "C06": " Writes are also sent in two chunks (MoreChunkedMessages), the second one up to 900 ms later and with its own TimedRequest flag: a "
           "timed-only element acts only inside a timed interaction that has not expired. Without faults every read / subscribe is answered to "
           "the end (oracle answer-abandoned).",
    "C07": " In half of the roll-back runs the pending fabric's ACL is rewritten over CASE before the fail-safe ends; the expelled controller of the "
           "remove-fabric runs may have gone quiet before the removal.",
    "C09": " In a third of the runs 1-4 idle sessions of the nodes are removed (evicted) while senders wait for acknowledgements (the "
           "session-removed notification reaches every waiter).",
    "C11": " Family damaged-resumption-cache: the stored CASE resumption blob is damaged while the device is down (empty, truncated, bit / byte "
           "flips, garbage, extension): start-up is not prevented, every committed fabric is there. confirmed-changes-then-restart also writes a group key set, a group key map entry, AddGroup and a second AddGroup that only renames the group (the simulated device carries the Groups cluster), each confirmed before the crash.",
    "C14": " Without faults every read / subscribe is answered to the end (oracle answer-abandoned).",
    "C15": " Family handshakes-under-loss: two real commissioners commission and operate one real device under 5-30 % loss, duplication, delay "
           "and a device restart (resumption): all datagrams of a node under one session id and counter (PASE, Sigma1/2/3, Sigma2Resume, IM) are "
           "bit-identical.",
    "C20": " Fault-free family additionally: the PASE establishment-in-progress marker is never set for more than 300 ms without a handshake "
           "exchange on the device. Families session-table-pressure(-delays): one fabric's controller keeps forgetting its sessions, every request of its needs a new CASE handshake and the device's 16-entry session table fills with idle sessions: of two handshakes in a row at least one gets through (Busy + eviction of an idle session, or eviction at once); the other fabric's administrator then removes its own fabric (its session is marked expired and still carries the answer's exchange) within milliseconds of another handshake that needs a slot, device probed every 200 us: a session whose exchange waits for an acknowledgement does not vanish unless something from its peer arrived.",
}
for _k, _v in _ADD.items():
    CHECKS[_k]["text"] += _v

NOT_APPLICABLE = {
    "C05": "pure function of (ACL entries, accessor, request): no schedule, clock, fault or history to simulate; stateful neighbours are covered by C06/C07",
    "C16": "pure function of a byte string / value tree (TLV codec): no schedule, clock, fault, crash or history; fuzzing/Kani territory, not deterministic simulation",
    "C17": "stateless encoders/decoders (headers, pairing codes, advertisement payloads, mDNS records): pure functions of their input",
    "C19": "certificate-chain predicate is a pure function of (chain, trusted root, time); its stateful consequences are decided under C08 (credential installation) and C01 (handshake)",
}

PENDING = {}

def main():
    props = [json.loads(l) for l in open("/verif/properties.jsonl")]
    checks = []
    na = []
    for p in props:
        pid = p["id"]
        if pid in CHECKS:
            c = CHECKS[pid]
            checks.append({
                "property_id": pid,
                "quick_cmd": f"./check {pid} quick",
                "thorough_cmd": f"./check {pid} thorough",
                "evidence_file": f"/verif/evidence/{pid}.json",
                "replay_cmd_template": "./check replay {path}",
                "engine": "rsm-sim",
                "level_claimed": {"category": c["level"], "text": c["text"], "design_ref": c["design"]},
                "level_note": COMMON_NOTE + c.get("note", ""),
                "technique": c["technique"],
            })
        elif pid in NOT_APPLICABLE:
            na.append({"property_id": pid, "reason": NOT_APPLICABLE[pid]})
        else:
            na.append({"property_id": pid, "reason": PENDING.get(pid, "not claimed in this revision: the simulated check for this property is not built yet (see DESIGN.md §4 for the plan)")})
    manifest = {
        "version": 1,
        "setup_cmd": "./check build",
        "hooks": {
            "guard": "cargo feature rs-matter/verif",
            "enable": "the simulator crate /verif/sim depends on /repo/rs-matter by path with features [std, rustcrypto, log, groups, case-resumption, persistent-subscriptions, verif] (no `os`: the simulator supplies the embassy-time driver)",
            "baseline_off_cmd": "cd /repo && cargo nextest run --workspace --no-fail-fast --test-threads 8 --offline || cargo test --workspace --no-fail-fast --offline",
            "source_commits": HOOK_COMMITS,
            "add_only": True,
        },
        "engines": [{
            "name": "rsm-sim",
            "path": "/verif/sim",
            "serves_properties": sorted(CHECKS),
            "kind_free_text": "purpose-built single-process discrete-event simulator around the real rs-matter crate: tape-driven executor (one root future per node incarnation), simulated embassy-time driver, datagram network with adversary and wire tap, KV store with crash/error injection, delta-debugging shrinker, replay files",
        }],
        "checks": checks,
        "not_applicable": na,
        "notes": "Exit codes of every command: 0 held, 1 violation (VIOLATION line), 2 harness error. VERIF_SEED selects the base seed (default 20260925); VERIF_BUDGET_S overrides the wall-clock budget; known findings are listed in /verif/known_findings.json.",
    }
    json.dump(manifest, open("/verif/MANIFEST.json", "w"), indent=1)
    print(f"{len(checks)} checks, {len(na)} not claimed")

main()
