#!/bin/sh
# usage: sweep.sh <seed> <tier>
seed=$1
for id in C01 C02 C03 C04 C06 C07 C08 C09 C10 C11 C12 C13 C14 C15 C18 C20; do
  start=$(date +%s)
  VERIF_SEED=$seed /verif/check $id quick > /tmp/sweep_${seed}_$id.log 2>&1
  rc=$?
  end=$(date +%s)
  echo "seed=$seed $id exit=$rc secs=$((end-start)) $(grep -c '^VIOLATION' /tmp/sweep_${seed}_$id.log) violations" >> /tmp/sweep_$seed.summary
done
echo done >> /tmp/sweep_$seed.summary
